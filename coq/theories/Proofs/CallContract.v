(* C07: the whole adapter - bind_expected, then the call with BoundArguments.args / .kwargs - hands
   every declared parameter the value the declarative assignment [spec_bind] gives it. *)
From Coq Require Import List Arith Bool Lia.
Import ListNotations.
From PySM Require Import Impl.Signature Spec.CallSpec Proofs.CallProofs Proofs.CallRoundTrip.

(* ---------- one step of the declarative assignment ---------- *)
Definition head_entry (p : param) (args : list nat) (kw : kwmap) : option bval :=
  match p_kind p with
  | PosOnly => match args with a :: _ => Some (BOne a) | [] => None end
  | PosOrKw => match lookup (p_name p) kw with
               | Some v => Some (BOne v)
               | None => match args with a :: _ => Some (BOne a) | [] => None end
               end
  | VarPos => match args with [] => None | _ => Some (BTuple args) end
  | KwOnly => match lookup (p_name p) kw with Some v => Some (BOne v) | None => None end
  | VarKw => match kw with [] => None | _ => Some (BDict kw) end
  end.

Definition step_args (p : param) (args : list nat) : list nat :=
  match p_kind p with PosOnly | PosOrKw => tl args | _ => [] end.

Definition step_kw (p : param) (kw : kwmap) : kwmap :=
  match p_kind p with
  | PosOrKw | KwOnly => match lookup (p_name p) kw with Some _ => remove (p_name p) kw | None => kw end
  | VarKw => []
  | _ => kw
  end.

Lemma spec_step p r args kw :
  spec_bind (p :: r) args kw =
    match head_entry p args kw with Some b => [(p_name p, b)] | None => [] end
    ++ spec_bind r (step_args p args) (step_kw p kw).
Proof.
  unfold head_entry, step_args, step_kw. simpl.
  destruct (p_kind p); try destruct (lookup (p_name p) kw); destruct args; try destruct kw; reflexivity.
Qed.

Lemma spec_names : forall ps args kw n b, arg_lookup n (spec_bind ps args kw) = Some b -> exists p, In p ps /\ p_name p = n.
Proof.
  induction ps as [|p r IH]; intros args kw n b H; [discriminate|].
  rewrite spec_step, arg_lookup_app in H.
  destruct (head_entry p args kw) as [b0|]; simpl in H.
  - destruct (Nat.eqb n (p_name p)) eqn:E.
    + apply Nat.eqb_eq in E. exists p. split; auto. now left.
    + destruct (IH _ _ _ _ H) as [q [Hq X]]. exists q. split; auto. now right.
  - destruct (IH _ _ _ _ H) as [q [Hq X]]. exists q. split; auto. now right.
Qed.

Lemma spec_lookup_head p r args kw : names_distinct (p :: r) = true ->
  arg_lookup (p_name p) (spec_bind (p :: r) args kw) = head_entry p args kw.
Proof.
  intros D. rewrite spec_step, arg_lookup_app.
  destruct (head_entry p args kw); simpl; [rewrite Nat.eqb_refl; auto|].
  destruct (arg_lookup (p_name p) (spec_bind r (step_args p args) (step_kw p kw))) eqn:E; auto.
  destruct (spec_names _ _ _ _ _ E) as [q [Hq X]].
  pose proof (names_distinct_head p r q D Hq) as Y. rewrite X, Nat.eqb_refl in Y. discriminate.
Qed.

Lemma spec_lookup_tail p r args kw q : names_distinct (p :: r) = true -> In q r ->
  arg_lookup (p_name q) (spec_bind (p :: r) args kw) = arg_lookup (p_name q) (spec_bind r (step_args p args) (step_kw p kw)).
Proof.
  intros D Hq. rewrite spec_step, arg_lookup_app.
  destruct (head_entry p args kw); simpl; auto. rewrite (names_distinct_head p r q D Hq). reflexivity.
Qed.

(* ---------- keyword maps ---------- *)
Lemma in_remove n v m : forall kw, In (n, v) (remove m kw) -> In (n, v) kw.
Proof.
  induction kw as [|[k w] kw IH]; simpl; auto. destruct (Nat.eqb m k); simpl; intuition.
Qed.

Lemma existsb_remove n m : forall kw,
  existsb (fun mw : nat * nat => Nat.eqb (fst mw) n) (remove m kw) = true ->
  existsb (fun mw : nat * nat => Nat.eqb (fst mw) n) kw = true.
Proof.
  intros kw H. apply existsb_exists in H. destruct H as [[k w] [H E]]. apply existsb_exists.
  exists (k, w). split; auto. eapply in_remove; eauto.
Qed.

Lemma distinct_remove m : forall kw, distinct_keys kw = true -> distinct_keys (remove m kw) = true.
Proof.
  induction kw as [|[k w] kw IH]; simpl; auto. intros H. apply andb_true_iff in H. destruct H as [H1 H2].
  destruct (Nat.eqb m k); auto. simpl. rewrite IH; auto. rewrite andb_true_r.
  apply negb_true_iff. apply negb_true_iff in H1.
  destruct (existsb (fun mw : nat * nat => Nat.eqb (fst mw) k) (remove m kw)) eqn:E; auto.
  rewrite (existsb_remove k m kw E) in H1. discriminate.
Qed.

Lemma removed_key_gone m : forall kw v, distinct_keys kw = true -> lookup m kw <> None -> ~ In (m, v) (remove m kw).
Proof.
  induction kw as [|[k w] kw IH]; simpl; intros v D L H; auto.
  apply andb_true_iff in D. destruct D as [D1 D2].
  destruct (Nat.eqb m k) eqn:E.
  - apply Nat.eqb_eq in E. subst k. apply negb_true_iff in D1.
    assert (X : existsb (fun mw : nat * nat => Nat.eqb (fst mw) m) kw = true).
    { apply existsb_exists. exists (m, v). split; auto. simpl. apply Nat.eqb_refl. }
    congruence.
  - destruct H as [H|H].
    + inversion H; subst. rewrite Nat.eqb_refl in E. discriminate.
    + eapply IH; eauto.
Qed.

Lemma lookup_none_not_in m : forall kw v, lookup m kw = None -> ~ In (m, v) kw.
Proof.
  induction kw as [|[k w] kw IH]; simpl; intros v L H; auto.
  destruct (Nat.eqb m k) eqn:E; [discriminate|]. destruct H as [H|H].
  - inversion H; subst. rewrite Nat.eqb_refl in E. discriminate.
  - eapply IH; eauto.
Qed.

(* ---------- the declarative assignment is well formed ---------- *)
Lemma spec_typed : forall ps args kw, names_distinct ps = true ->
  forall p b, In p ps -> arg_lookup (p_name p) (spec_bind ps args kw) = Some b -> typed p b.
Proof.
  induction ps as [|q r IH]; intros args kw D p b Hp H; [contradiction|].
  destruct Hp as [->|Hp].
  - rewrite spec_lookup_head in H by auto. unfold head_entry in H. unfold typed.
    destruct (p_kind p); try destruct (lookup (p_name p) kw); destruct args; try destruct kw;
      inversion H; subst; exact I.
  - rewrite spec_lookup_tail in H by auto. eapply IH; eauto. eapply names_distinct_tail; eauto.
Qed.

Lemma spec_exhausted : forall r kw, names_distinct r = true ->
  forall q, In q r -> (p_kind q = PosOnly \/ p_kind q = VarPos) -> arg_lookup (p_name q) (spec_bind r [] kw) = None.
Proof.
  induction r as [|p r IH]; intros kw D q Hq K; [contradiction|].
  destruct Hq as [->|Hq].
  - rewrite spec_lookup_head by auto. unfold head_entry. destruct K as [K|K]; rewrite K; reflexivity.
  - rewrite spec_lookup_tail by auto.
    assert (E : step_args p [] = []) by (unfold step_args; destruct (p_kind p); reflexivity).
    rewrite E. apply IH; auto. eapply names_distinct_tail; eauto.
Qed.

Lemma spec_prefix_closed : forall ps args kw, names_distinct ps = true -> prefix_closed ps (spec_bind ps args kw).
Proof.
  induction ps as [|p0 r IH]; intros args kw D P p T E IP L q Hq K.
  - destruct P; discriminate.
  - pose proof (names_distinct_tail _ _ D) as Dr. destruct P as [|p1 P]; simpl in E; inversion E; subst.
    + (* the unbound parameter is the first one: the positional values are exhausted *)
      rewrite spec_lookup_head in L by auto. rewrite spec_lookup_tail by auto.
      assert (X : step_args p args = []).
      { unfold head_entry in L. unfold step_args. unfold is_positional in IP.
        destruct (p_kind p); try discriminate; try destruct (lookup (p_name p) kw); destruct args; try discriminate; reflexivity. }
      rewrite X. apply spec_exhausted; auto.
    + assert (Hp : In p (P ++ p :: T)) by (apply in_or_app; right; now left).
      assert (Hq' : In q (P ++ p :: T)) by (apply in_or_app; right; now right).
      rewrite spec_lookup_tail in L by auto. rewrite spec_lookup_tail by auto.
      eapply (IH _ _ Dr P p T); eauto.
Qed.

Lemma spec_dict : forall ps args kw, shape ps = true -> names_distinct ps = true -> distinct_keys kw = true ->
  forall p d, In p ps -> p_kind p = VarKw -> arg_lookup (p_name p) (spec_bind ps args kw) = Some (BDict d) ->
  forall n v, In (n, v) d ->
    In (n, v) kw /\ forall q, In q ps -> p_name q = n -> p_kind q <> PosOrKw /\ p_kind q <> KwOnly.
Proof.
  induction ps as [|p0 r IH]; intros args kw S D DK p d Hp K L n v Hn; [contradiction|].
  pose proof (names_distinct_tail _ _ D) as Dr. pose proof (shape_tail _ _ S) as Sr.
  destruct Hp as [->|Hp].
  - (* **kwargs is the last parameter *)
    assert (r = []) as -> by (simpl in S; rewrite K in S; destruct r; auto; discriminate).
    rewrite spec_lookup_head in L by auto. unfold head_entry in L. rewrite K in L.
    destruct kw; inversion L; subst. split; auto.
    intros q [<-|[]] _. rewrite K. split; discriminate.
  - rewrite spec_lookup_tail in L by auto.
    assert (DK' : distinct_keys (step_kw p0 kw) = true).
    { unfold step_kw. destruct (p_kind p0); auto; destruct (lookup (p_name p0) kw); auto using distinct_remove. }
    destruct (IH _ _ Sr Dr DK' p d Hp K L n v Hn) as [In' Rest].
    assert (Sub : In (n, v) kw).
    { unfold step_kw in In'. destruct (p_kind p0); try destruct (lookup (p_name p0) kw); auto;
        try (eapply in_remove; eassumption); contradiction. }
    split; auto. intros q [<-|Hq] E; [|apply Rest; auto].
    unfold step_kw in In'. subst n.
    destruct (p_kind p0) eqn:K0; try (split; discriminate).
    + destruct (lookup (p_name p0) kw) eqn:Lk.
      * exfalso. apply (removed_key_gone (p_name p0) kw v DK); [rewrite Lk; discriminate | exact In'].
      * exfalso. apply (lookup_none_not_in (p_name p0) kw v Lk). exact In'.
    + destruct (lookup (p_name p0) kw) eqn:Lk.
      * exfalso. apply (removed_key_gone (p_name p0) kw v DK); [rewrite Lk; discriminate | exact In'].
      * exfalso. apply (lookup_none_not_in (p_name p0) kw v Lk). exact In'.
Qed.

Theorem spec_bind_wb sig args kw :
  shape sig = true -> names_distinct sig = true -> distinct_keys kw = true ->
  WB sig (spec_bind sig args kw).
Proof.
  intros S D DK. constructor.
  - intros p b Hp H. eapply spec_typed; eauto.
  - apply spec_prefix_closed; auto.
  - intros p d Hp K L n v q Hn Hq E. destruct (spec_dict sig args kw S D DK p d Hp K L n v Hn) as [_ R]. auto.
Qed.

(* ---------- the contract ---------- *)
(* For every signature `def` accepts, every list of positional values and every keyword map (distinct
   keys, no positional-only parameter named): the callable is either not callable with what the
   event carries - a parameter without default stays unbound, CPython raises "missing required
   argument" - or it is called and each declared parameter receives exactly the value [spec_bind]
   assigns to it (the star parameters: what is assigned, or an empty tuple / dict).  No other
   TypeError is possible. *)
Theorem adapter_contract sig args kw :
  shape sig = true -> names_distinct sig = true -> distinct_keys kw = true -> no_posonly_named sig kw ->
  let B := spec_bind sig args kw in
  (missing sig B = true /\ adapter_call sig args kw = inl (CallTypeError 4))
  \/ (missing sig B = false /\ exists A, adapter_call sig args kw = inl (Assigned A)
        /\ forall p, In p sig -> arg_lookup (p_name p) A = received p B).
Proof.
  intros S D DK NP B. unfold adapter_call. rewrite (bind_is_spec sig args kw S NP). fold B.
  destruct (round_trip B sig S D (spec_bind_wb sig args kw S D DK)) as [[M E]|[M [A [E R]]]].
  - left. rewrite E. auto.
  - right. split; auto. exists A. rewrite E. auto.
Qed.

(* ---------- what the declarative assignment says, parameter by parameter ---------- *)
Lemma lookup_remove_other n m : Nat.eqb n m = false -> forall k, lookup n (remove m k) = lookup n k.
Proof.
  intros Ne. induction k as [|[x w] k IHk]; simpl; auto.
  destruct (Nat.eqb m x) eqn:E1.
  - apply Nat.eqb_eq in E1. subst x. rewrite Ne. reflexivity.
  - simpl. rewrite IHk. reflexivity.
Qed.

(* named parameters receive the same-named keyword *)
Theorem named_parameter_gets_keyword : forall sig args kw p v,
  shape sig = true -> names_distinct sig = true -> In p sig ->
  (p_kind p = PosOrKw \/ p_kind p = KwOnly) -> lookup (p_name p) kw = Some v ->
  arg_lookup (p_name p) (spec_bind sig args kw) = Some (BOne v).
Proof.
  induction sig as [|q r IH]; intros args kw p v S D Hp K L; [contradiction|].
  destruct Hp as [->|Hp].
  - rewrite spec_lookup_head by auto. unfold head_entry. destruct K as [K|K]; rewrite K, L; reflexivity.
  - rewrite spec_lookup_tail by auto. apply IH; auto.
    + eapply shape_tail; eauto.
    + eapply names_distinct_tail; eauto.
    + pose proof (names_distinct_head q r p D Hp) as Ne.
      unfold step_kw. destruct (p_kind q) eqn:Kq; auto;
        try (destruct (lookup (p_name q) kw); rewrite ?(lookup_remove_other _ _ Ne); auto).
      all: exfalso; simpl in S; rewrite Kq in S; destruct r; [contradiction|discriminate].
Qed.

(* positional parameters that no keyword names receive the positional values slot by slot *)
Theorem positional_parameters_in_order : forall P T args kw,
  (forall p, In p P -> is_positional p = true /\ lookup (p_name p) kw = None) ->
  names_distinct (P ++ T) = true ->
  forall i p a, nth_error P i = Some p -> nth_error args i = Some a ->
    arg_lookup (p_name p) (spec_bind (P ++ T) args kw) = Some (BOne a).
Proof.
  induction P as [|q P IH]; intros T args kw HP D i p a Hi Ha; [destruct i; discriminate|].
  simpl app in *. destruct (HP q (or_introl eq_refl)) as [IPq Lq].
  assert (Eargs : step_args q args = tl args).
  { unfold step_args. unfold is_positional in IPq. destruct (p_kind q); try discriminate; reflexivity. }
  assert (Ekw : step_kw q kw = kw).
  { unfold step_kw. rewrite Lq. unfold is_positional in IPq. destruct (p_kind q); try discriminate; reflexivity. }
  destruct i as [|i].
  - simpl in Hi. inversion Hi; subst q. destruct args as [|a0 args]; [discriminate|]. simpl in Ha. inversion Ha; subst a0.
    rewrite spec_lookup_head by auto. unfold head_entry. unfold is_positional in IPq.
    destruct (p_kind p); try discriminate; rewrite ?Lq; reflexivity.
  - simpl in Hi. assert (Hp : In p (P ++ T)) by (apply in_or_app; left; eapply nth_error_In; eauto).
    rewrite spec_lookup_tail by auto. rewrite Eargs, Ekw.
    apply (IH T (tl args) kw) with (i := i); auto.
    + intros p' Hp'. apply HP. now right.
    + eapply names_distinct_tail; eauto.
    + destruct args; [discriminate|]. exact Ha.
Qed.

(* the star-args parameter receives the positional values beyond the positional parameters *)
Theorem varpos_gets_surplus : forall P vp T args kw,
  (forall p, In p P -> is_positional p = true) -> p_kind vp = VarPos ->
  names_distinct (P ++ vp :: T) = true -> length P < length args ->
  arg_lookup (p_name vp) (spec_bind (P ++ vp :: T) args kw) = Some (BTuple (skipn (length P) args)).
Proof.
  induction P as [|q P IH]; intros vp T args kw HP K D Hlen.
  - simpl app. rewrite spec_lookup_head by auto. unfold head_entry. rewrite K.
    destruct args; [simpl in Hlen; lia|reflexivity].
  - simpl app in *. assert (Hvp : In vp (P ++ vp :: T)) by (apply in_or_app; right; now left).
    rewrite spec_lookup_tail by auto.
    assert (Eargs : step_args q args = tl args).
    { unfold step_args. pose proof (HP q (or_introl eq_refl)) as IPq. unfold is_positional in IPq.
      destruct (p_kind q); try discriminate; reflexivity. }
    rewrite Eargs. destruct args as [|a0 args]; [simpl in Hlen; lia|]. simpl.
    apply IH; auto.
    + intros p' Hp'. apply HP. now right.
    + eapply names_distinct_tail; eauto.
    + simpl in Hlen. lia.
Qed.

(* the star-kwargs parameter receives exactly the keywords that name no positional-or-keyword or
   keyword-only parameter, in their order *)
Definition consumes (p : param) (n : nat) : bool :=
  match p_kind p with PosOrKw | KwOnly => Nat.eqb (p_name p) n | _ => false end.
Definition unconsumed (ps : list param) (nv : nat * nat) : bool := negb (existsb (fun p => consumes p (fst nv)) ps).

Lemma filter_id {A} (f : A -> bool) l : (forall x, In x l -> f x = true) -> filter f l = l.
Proof.
  induction l as [|x l IH]; intros H; simpl; auto. rewrite (H x (or_introl eq_refl)), IH; auto.
  intros y Hy. apply H. now right.
Qed.

Lemma filter_filter {A} (f g : A -> bool) l : filter f (filter g l) = filter (fun x => g x && f x) l.
Proof. induction l as [|x l IH]; simpl; auto. destruct (g x); simpl; rewrite IH; auto. Qed.

Lemma remove_is_filter m : forall kw, distinct_keys kw = true ->
  remove m kw = filter (fun nv => negb (Nat.eqb m (fst nv))) kw.
Proof.
  induction kw as [|[k w] kw IH]; intros D; simpl; auto. simpl in D. apply andb_true_iff in D. destruct D as [D1 D2].
  destruct (Nat.eqb m k) eqn:E; simpl.
  - apply Nat.eqb_eq in E. subst k. symmetry. apply filter_id. intros [k' w'] H. simpl.
    apply negb_true_iff in D1. destruct (Nat.eqb m k') eqn:E'; auto. apply Nat.eqb_eq in E'. subst k'.
    assert (X : existsb (fun mw : nat * nat => Nat.eqb (fst mw) m) kw = true).
    { apply existsb_exists. exists (m, w'). split; auto. apply Nat.eqb_refl. }
    congruence.
  - rewrite IH; auto.
Qed.

Theorem varkw_gets_leftovers : forall ps args kw vk,
  shape ps = true -> names_distinct ps = true -> distinct_keys kw = true -> In vk ps -> p_kind vk = VarKw ->
  arg_lookup (p_name vk) (spec_bind ps args kw) =
    match filter (unconsumed ps) kw with [] => None | d => Some (BDict d) end.
Proof.
  induction ps as [|q r IH]; intros args kw vk S D DK Hvk K; [contradiction|].
  pose proof (names_distinct_tail _ _ D) as Dr. pose proof (shape_tail _ _ S) as Sr.
  destruct Hvk as [->|Hvk].
  - assert (r = []) as -> by (simpl in S; rewrite K in S; destruct r; auto; discriminate).
    rewrite spec_lookup_head by auto. unfold head_entry. rewrite K.
    rewrite filter_id. { destruct kw; reflexivity. }
    intros nv _. unfold unconsumed, consumes. simpl. rewrite K. reflexivity.
  - rewrite spec_lookup_tail by auto.
    assert (DK' : distinct_keys (step_kw q kw) = true).
    { unfold step_kw. destruct (p_kind q); auto; destruct (lookup (p_name q) kw); auto using distinct_remove. }
    rewrite (IH _ _ vk Sr Dr DK' Hvk K).
    assert (E : filter (unconsumed r) (step_kw q kw) = filter (unconsumed (q :: r)) kw); [|rewrite E; reflexivity].
    unfold step_kw, unconsumed. simpl existsb. unfold consumes at 2.
    destruct (p_kind q) eqn:Kq; simpl; auto.
    + destruct (lookup (p_name q) kw) eqn:L.
      * rewrite remove_is_filter, filter_filter by auto. apply filter_ext. intros nv. rewrite negb_orb. reflexivity.
      * apply filter_ext_in. intros [n v] H. simpl. destruct (Nat.eqb (p_name q) n) eqn:E; auto.
        apply Nat.eqb_eq in E. subst n. exfalso. eapply lookup_none_not_in; eauto.
    + destruct (lookup (p_name q) kw) eqn:L.
      * rewrite remove_is_filter, filter_filter by auto. apply filter_ext. intros nv. rewrite negb_orb. reflexivity.
      * apply filter_ext_in. intros [n v] H. simpl. destruct (Nat.eqb (p_name q) n) eqn:E; auto.
        apply Nat.eqb_eq in E. subst n. exfalso. eapply lookup_none_not_in; eauto.
    + exfalso. simpl in S. rewrite Kq in S. destruct r; [contradiction|discriminate].
Qed.
