(* C06 with failing callbacks (Impl/ConcFail.v): per sender, what was begun, followed by what is queued,
   followed by what is still to be sent, is at every moment a SUBSEQUENCE of the sender's plan - events
   may be dropped (the queue is cleared when a callback fails: C04) but never invented, reordered or
   begun twice.  For every failing set, plan, schedule, and for the engine before and after fix 894918f. *)
From Coq Require Import List Arith Bool Lia.
Import ListNotations.
From PySM Require Import Impl.Conc Impl.ConcFail Proofs.ConcProofs Proofs.ConcFailProofs.

Inductive subseq {A : Type} : list A -> list A -> Prop :=
| ss_nil l : subseq [] l
| ss_keep x l1 l2 : subseq l1 l2 -> subseq (x :: l1) (x :: l2)
| ss_skip x l1 l2 : subseq l1 l2 -> subseq l1 (x :: l2).

Lemma subseq_refl {A} (l : list A) : subseq l l.
Proof. induction l; constructor; auto. Qed.

Lemma subseq_in {A} (l1 l2 : list A) : subseq l1 l2 -> forall x, In x l1 -> In x l2.
Proof.
  induction 1 as [l|x l1 l2 _ IH|x l1 l2 _ IH]; intros y I.
  - destruct I.
  - destruct I as [->|I]; [left; reflexivity|right; apply IH; exact I].
  - right. apply IH. exact I.
Qed.

Lemma subseq_nodup {A} (l1 l2 : list A) : subseq l1 l2 -> NoDup l2 -> NoDup l1.
Proof.
  induction 1 as [l|x l1 l2 S IH|x l1 l2 S IH]; intros N.
  - constructor.
  - inversion N as [|? ? Nx Nr]; subst. constructor; [|apply IH; exact Nr].
    intros I. apply Nx. eapply subseq_in; eauto.
  - inversion N; subst. apply IH. assumption.
Qed.

Lemma subseq_trans {A} : forall (l2 l3 : list A), subseq l2 l3 -> forall l1, subseq l1 l2 -> subseq l1 l3.
Proof.
  induction 1 as [l|x l2 l3 S IH|x l2 l3 S IH]; intros l1 H.
  - inversion H; subst. constructor.
  - inversion H; subst.
    + constructor.
    + constructor. apply IH. assumption.
    + apply ss_skip. apply IH. assumption.
  - apply ss_skip. apply IH. exact H.
Qed.

Lemma subseq_app_head {A} (a l1 l2 : list A) : subseq l1 l2 -> subseq (a ++ l1) (a ++ l2).
Proof. intros H. induction a; simpl; [exact H|constructor; exact IHa]. Qed.

Lemma subseq_skip_front {A} (b c : list A) : subseq c (b ++ c).
Proof. induction b; simpl; [apply subseq_refl|apply ss_skip; exact IHb]. Qed.

(* dropping a middle segment keeps a subsequence a subsequence *)
Lemma subseq_drop_middle {A} (a b c l : list A) : subseq (a ++ b ++ c) l -> subseq (a ++ c) l.
Proof. intros H. eapply subseq_trans; [exact H|]. apply subseq_app_head. apply subseq_skip_front. Qed.

Definition line_of (w : fworld) (t : nat) : list event :=
  of_sender t (begun (fw_log w)) ++ of_sender t (fw_queue w) ++ f_todo (fw_threads w t).

Definition FOrd (plan : nat -> nat) (w : fworld) : Prop :=
  forall t, subseq (line_of w t) (sends t (plan t)).

Lemma ford_init plan : FOrd plan (finit plan).
Proof. intros t. unfold line_of. simpl. apply subseq_refl. Qed.

Lemma todo_of_own_sender plan w t e : FOrd plan w -> In e (f_todo (fw_threads w t)) -> fst e = t.
Proof.
  intros O I. apply (sends_fst t (plan t)). eapply subseq_in; [apply (O t)|].
  unfold line_of. apply in_or_app; right. apply in_or_app; right. exact I.
Qed.

Lemma of_sender_one t e : of_sender t [e] = if Nat.eqb (fst e) t then [e] else [].
Proof. reflexivity. Qed.

Section Step.
  Variable fails : event -> bool.
  Variable fixed : bool.
  Variable plan : nat -> nat.

  Lemma ford_step w t : FOrd plan w -> FOrd plan (fstep fails fixed w t).
  Proof.
    intros O. unfold fstep.
    destruct (f_pc (fw_threads w t)) eqn:P.
    - (* FIdle: put *)
      destruct (f_todo (fw_threads w t)) as [|e r] eqn:T; [exact O|].
      assert (Fe : fst e = t) by (apply (todo_of_own_sender plan w t e O); rewrite T; left; reflexivity).
      intros t'. specialize (O t'). unfold line_of in *. simpl.
      rewrite of_sender_app, of_sender_one.
      destruct (Nat.eq_dec t' t) as [->|N].
      + rewrite fupd_same. simpl. rewrite Fe, Nat.eqb_refl. rewrite T in O.
        rewrite <- !app_assoc. simpl. exact O.
      + rewrite fupd_other by exact N.
        destruct (Nat.eqb_spec (fst e) t') as [E|_]; [exfalso; apply N; congruence|].
        rewrite app_nil_r. exact O.
    - (* FAcq *)
      destruct (fw_holder w); intros t'; specialize (O t'); unfold line_of in *; simpl;
        (destruct (Nat.eq_dec t' t) as [->|N]; [rewrite fupd_same|rewrite fupd_other by exact N]); exact O.
    - (* FTest: pop or see the queue empty *)
      destruct (fw_queue w) as [|e q] eqn:Q.
      + intros t'; specialize (O t'); unfold line_of in *; simpl. rewrite Q in O.
        destruct (Nat.eq_dec t' t) as [->|N]; [rewrite fupd_same|rewrite fupd_other by exact N]; exact O.
      + intros t'. specialize (O t'). unfold line_of in *. simpl. rewrite Q in O.
        rewrite begun_app, of_sender_app. simpl begun. rewrite of_sender_one.
        assert (T : f_todo (fupd (fw_threads w) t (fset (fw_threads w t) FProc) t') = f_todo (fw_threads w t')).
        { destruct (Nat.eq_dec t' t) as [->|N]; [rewrite fupd_same|rewrite fupd_other by exact N]; reflexivity. }
        rewrite T. simpl of_sender in O.
        destruct (Nat.eqb (fst e) t'); [|rewrite app_nil_r; exact O].
        rewrite <- !app_assoc. simpl. exact O.
    - (* FProc: the callbacks end, or fail and the queue is cleared *)
      assert (T : forall p t', f_todo (fupd (fw_threads w) t (fset (fw_threads w t) p) t') = f_todo (fw_threads w t')).
      { intros p t'. destruct (Nat.eq_dec t' t) as [->|N]; [rewrite fupd_same|rewrite fupd_other by exact N]; reflexivity. }
      destruct (fails _); intros t'; specialize (O t'); unfold line_of in *; simpl;
        rewrite begun_app; simpl begun; rewrite app_nil_r, T.
      + simpl. eapply subseq_drop_middle. exact O.
      + exact O.
    - (* FRel *)
      intros t'; specialize (O t'); unfold line_of in *; simpl.
      destruct (Nat.eq_dec t' t) as [->|N]; [rewrite fupd_same|rewrite fupd_other by exact N]; exact O.
    - (* FRecheck *)
      intros t'; specialize (O t'); unfold line_of in *; simpl.
      destruct (Nat.eq_dec t' t) as [->|N]; [rewrite fupd_same|rewrite fupd_other by exact N]; exact O.
    - (* FRelF *)
      intros t'; specialize (O t'); unfold line_of in *; simpl.
      destruct (Nat.eq_dec t' t) as [->|N]; [rewrite fupd_same|rewrite fupd_other by exact N]; exact O.
  Qed.

  Lemma ford_run : forall sched w, FOrd plan w -> FOrd plan (frun fails fixed sched w).
  Proof. induction sched as [|t r IH]; intros w O; simpl; auto. apply IH. apply ford_step. exact O. Qed.

  (* per sender: the events begun so far, in the order they were begun, are a subsequence of the sender's plan
     (its own order; some may have been dropped by a failure) ... *)
  Theorem sender_order_with_failures sched t :
    subseq (of_sender t (begun (fw_log (frun fails fixed sched (finit plan))))) (sends t (plan t)).
  Proof.
    pose proof (ford_run sched _ (ford_init plan) t) as O. unfold line_of in O.
    eapply subseq_trans; [exact O|].
    rewrite <- (app_nil_r (of_sender t (begun _))) at 1. apply subseq_app_head. constructor.
  Qed.

  (* ... and nothing is begun twice, nor begun while still queued or still to be sent *)
  Theorem processed_at_most_once_with_failures sched t :
    let w := frun fails fixed sched (finit plan) in
    NoDup (of_sender t (begun (fw_log w)) ++ of_sender t (fw_queue w) ++ f_todo (fw_threads w t)).
  Proof.
    intros w. eapply subseq_nodup; [apply (ford_run sched _ (ford_init plan) t)|apply sends_nodup].
  Qed.
End Step.
