(* Proofs about the signature model (Impl/Signature.v). *)
From Coq Require Import List Arith Bool Lia.
Import ListNotations.
From PySM Require Import Impl.Signature.

Definition names (sig : list param) : list nat := map p_name sig.

Lemma lookup_in n k v : lookup n k = Some v -> In (n, v) k.
Proof.
  induction k as [|[m w] r IH]; simpl; [discriminate|].
  destruct (Nat.eqb n m) eqn:E; intros H.
  - apply Nat.eqb_eq in E. inversion H; subst. now left.
  - right. now apply IH.
Qed.

(* ---------- the binder only ever binds declared parameters ---------- *)
Definition only_declared (sig : list param) (a : arguments) : Prop :=
  forall n v, In (n, v) a -> In n (names sig).

Lemma kw_phase_declared sig : forall ps kw acc kwp acc1 kw1 kwp1,
  incl ps sig -> only_declared sig acc ->
  kw_phase ps kw acc kwp = (acc1, kw1, kwp1) ->
  only_declared sig acc1 /\ (match kwp1 with Some n => kwp = Some n \/ In n (names sig) | None => True end).
Proof.
  induction ps as [|p r IH]; intros kw acc kwp acc1 kw1 kwp1 Hin Hacc H; simpl in H.
  - inversion H; subst. split; auto. destruct kwp1; auto.
  - assert (Hr : incl r sig) by (intros x Hx; apply Hin; now right).
    assert (Hp : In (p_name p) (names sig)) by (apply in_map, Hin; now left).
    destruct (p_kind p).
    + destruct (lookup (p_name p) kw) as [v|]; eapply IH in H; eauto.
      intros n w Hn. apply in_app_or in Hn as [Hn|[Hn|[]]]; [eauto|]. inversion Hn; subst. exact Hp.
    + destruct (lookup (p_name p) kw) as [v|]; eapply IH in H; eauto.
      intros n w Hn. apply in_app_or in Hn as [Hn|[Hn|[]]]; [eauto|]. inversion Hn; subst. exact Hp.
    + eapply IH in H; eauto.
    + destruct (lookup (p_name p) kw) as [v|]; eapply IH in H; eauto.
      intros n w Hn. apply in_app_or in Hn as [Hn|[Hn|[]]]; [eauto|]. inversion Hn; subst. exact Hp.
    + eapply IH in H; eauto. destruct H as (H1 & H2). split; auto.
      destruct kwp1 as [n|]; auto. destruct H2 as [H2|H2]; auto. inversion H2; subst. right. exact Hp.
Qed.

Lemma finish_declared sig ps kw acc kwp a :
  incl ps sig -> only_declared sig acc ->
  (match kwp with Some n => In n (names sig) | None => True end) ->
  finish ps kw acc kwp = Bound a -> only_declared sig a.
Proof.
  intros Hin Hacc Hk H. unfold finish in H.
  destruct (kw_phase ps kw acc kwp) as [[acc1 kw1] kwp1] eqn:E.
  destruct (kw_phase_declared sig ps kw acc kwp acc1 kw1 kwp1 Hin Hacc E) as (H1 & H2).
  destruct kw1 as [|x kw1']; [inversion H; subst; auto|].
  destruct kwp1 as [n|]; inversion H; subst; auto.
  intros m w Hm. apply in_app_or in Hm as [Hm|[Hm|[]]]; [eauto|]. inversion Hm; subst.
  destruct H2 as [H2|H2]; auto. subst. exact Hk.
Qed.

Lemma pos_phase_declared sig : forall ps args kw acc a,
  incl ps sig -> only_declared sig acc ->
  pos_phase ps args kw acc = Bound a -> only_declared sig a.
Proof.
  induction ps as [|p r IH]; intros args kw acc a Hin Hacc H.
  - destruct args; simpl in H; eapply finish_declared; eauto; simpl; auto.
  - assert (Hr : incl r sig) by (intros x Hx; apply Hin; now right).
    assert (Hp : In (p_name p) (names sig)) by (apply in_map, Hin; now left).
    assert (Hext : forall v, only_declared sig (acc ++ [(p_name p, v)])).
    { intros v n w Hn. apply in_app_or in Hn as [Hn|[Hn|[]]]; [eauto|]. inversion Hn; subst. exact Hp. }
    destruct args as [|x rest]; simpl in H.
    + destruct (p_kind p) eqn:K;
        try (destruct (lookup (p_name p) kw); try discriminate);
        (eapply finish_declared; [| |idtac|exact H]; simpl; auto).
    + destruct (p_kind p) eqn:K.
      * eapply IH; [exact Hr|apply Hext|exact H].
      * destruct (lookup (p_name p) kw); (eapply IH; [exact Hr|apply Hext|exact H]).
      * eapply finish_declared; [exact Hr|apply Hext| |exact H]; simpl; auto.
      * eapply finish_declared; [| | |exact H]; simpl; auto.
      * eapply finish_declared; [exact Hr|exact Hacc| |exact H]; simpl; auto.
Qed.

(* nothing but declared parameters is ever bound: undeclared event data is dropped by the binder *)
Theorem bind_only_declared sig args kw a :
  bind_expected sig args kw = Bound a -> only_declared sig a.
Proof.
  intros H. eapply pos_phase_declared; eauto.
  - apply incl_refl.
  - intros n v [].
Qed.

(* ---------- the binder itself raises only in the positional-only-named-as-keyword case ---------- *)
Lemma finish_never_raises ps kw acc kwp : finish ps kw acc kwp <> BindTypeError.
Proof.
  unfold finish. destruct (kw_phase ps kw acc kwp) as [[a k] o]. destruct k; [|destruct o]; discriminate.
Qed.

Theorem bind_type_error_only_posonly_keyword sig : forall args kw acc,
  pos_phase sig args kw acc = BindTypeError ->
  exists p v, In p sig /\ p_kind p = PosOnly /\ lookup (p_name p) kw = Some v.
Proof.
  induction sig as [|p r IH]; intros args kw acc H.
  - destruct args; simpl in H; exfalso; eapply finish_never_raises; eauto.
  - destruct args as [|x rest]; simpl in H.
    + destruct (p_kind p) eqn:K.
      * destruct (lookup (p_name p) kw) as [v|] eqn:L.
        -- exists p, v. repeat split; auto. now left.
        -- exfalso; eapply finish_never_raises; eauto.
      * destruct (lookup (p_name p) kw); exfalso; eapply finish_never_raises; eauto.
      * exfalso; eapply finish_never_raises; eauto.
      * destruct (lookup (p_name p) kw); exfalso; eapply finish_never_raises; eauto.
      * destruct (lookup (p_name p) kw); exfalso; eapply finish_never_raises; eauto.
    + destruct (p_kind p) eqn:K.
      * apply IH in H. destruct H as (q & v & Hq & Hk & Hl). exists q, v. repeat split; auto. now right.
      * destruct (lookup (p_name p) kw) as [v0|] eqn:L.
        -- apply IH in H. destruct H as (q & v & Hq & Hk & Hl).
           exists q. destruct (Nat.eqb (p_name q) (p_name p)) eqn:E.
           ++ (* q's name was removed?  its lookup in the reduced map is still a lookup in kw *)
              exists v0. repeat split; auto; [now right|].
              apply Nat.eqb_eq in E. rewrite E. exact L.
           ++ exists v. repeat split; auto; [now right|].
              clear - Hl E. induction kw as [|[m w] k IHk]; simpl in *; [discriminate|].
              destruct (Nat.eqb (p_name p) m) eqn:E1.
              ** apply Nat.eqb_eq in E1. subst m.
                 destruct (Nat.eqb (p_name q) (p_name p)); [discriminate|]. exact Hl.
              ** simpl in Hl. destruct (Nat.eqb (p_name q) m); auto.
        -- apply IH in H. destruct H as (q & v & Hq & Hk & Hl). exists q, v. repeat split; auto. now right.
      * exfalso; eapply finish_never_raises; eauto.
      * exfalso; eapply finish_never_raises; eauto.
      * exfalso; eapply finish_never_raises; eauto.
Qed.

(* ---------- reserved names: the library's own values win over anything the user passed ---------- *)
(* Event.__call__ filters the reserved names out of the user's kwargs; EventData.extended_kwargs then
   adds the eight built-ins on top of what is left *)
Lemma trigger_kwargs_no_reserved user n v : In (n, v) (trigger_kwargs user) -> reserved n = false.
Proof. unfold trigger_kwargs. rewrite filter_In. simpl. intros (_ & H). now destruct (reserved n). Qed.

Lemma lookup_trigger_reserved user n : reserved n = true -> lookup n (trigger_kwargs user) = None.
Proof.
  intros R. destruct (lookup n (trigger_kwargs user)) as [v|] eqn:L; auto.
  apply lookup_in, trigger_kwargs_no_reserved in L. congruence.
Qed.

Lemma lookup_map_replace n v m base :
  lookup m (map (fun mw => if Nat.eqb (fst mw) n then (n, v) else mw) base) =
  if Nat.eqb m n then (match lookup n base with Some _ => Some v | None => None end) else lookup m base.
Proof.
  induction base as [|[k w] r IH]; simpl.
  - destruct (Nat.eqb m n); reflexivity.
  - destruct (Nat.eqb_spec k n) as [->|Hkn]; simpl.
    + rewrite Nat.eqb_refl. destruct (Nat.eqb_spec m n) as [->|Hmn]; auto.
    + destruct (Nat.eqb_spec m k) as [->|Hmk].
      * destruct (Nat.eqb_spec k n); [contradiction|reflexivity].
      * rewrite IH. destruct (Nat.eqb_spec m n) as [->|Hmn]; auto.
        destruct (Nat.eqb_spec n k) as [E|_]; [symmetry in E; contradiction|reflexivity].
Qed.

Lemma lookup_app_single m base n v :
  lookup m (base ++ [(n, v)]) = match lookup m base with Some w => Some w | None => if Nat.eqb m n then Some v else None end.
Proof.
  induction base as [|[k w] r IH]; simpl; auto.
  destruct (Nat.eqb m k); auto.
Qed.

Lemma lookup_overlay m : forall top base,
  distinct_keys top = true ->
  lookup m (overlay base top) = match lookup m top with Some v => Some v | None => lookup m base end.
Proof.
  induction top as [|[n v] r IH]; intros base D; simpl; auto.
  simpl in D. apply andb_true_iff in D as (D1 & D2). rewrite IH by exact D2.
  destruct (Nat.eqb m n) eqn:E.
  - apply Nat.eqb_eq in E. subst m.
    assert (lookup n r = None) as ->.
    { clear - D1. induction r as [|[k w] r IHr]; simpl in *; auto.
      rewrite Nat.eqb_sym. destruct (Nat.eqb k n); simpl in *; [discriminate|]. auto. }
    destruct (lookup n base) as [w|] eqn:L.
    + rewrite lookup_map_replace, Nat.eqb_refl, L. reflexivity.
    + rewrite lookup_app_single, L, Nat.eqb_refl. reflexivity.
  - destruct (lookup m r); auto.
    destruct (lookup n base) as [w|] eqn:L.
    + rewrite lookup_map_replace, E. reflexivity.
    + rewrite lookup_app_single, E. destruct (lookup m base); reflexivity.
Qed.

(* a callback asking for a built-in name gets the library's value, whatever the user passed;
   a callback asking for any other name gets the user's value untouched *)
Theorem builtins_win user builtins n :
  distinct_keys builtins = true ->
  lookup n (extended_kwargs user builtins) =
    match lookup n builtins with
    | Some v => Some v
    | None => if reserved n then None else lookup n (trigger_kwargs user)
    end.
Proof.
  intros D. unfold extended_kwargs. rewrite lookup_overlay by exact D.
  destruct (lookup n builtins); auto.
  destruct (reserved n) eqn:R; auto. apply lookup_trigger_reserved. exact R.
Qed.

(* the trigger never carries a reserved name *)
Theorem trigger_data_has_no_reserved_name user n v :
  In (n, v) (trigger_kwargs user) -> reserved n = false.
Proof. exact (trigger_kwargs_no_reserved user n v). Qed.
