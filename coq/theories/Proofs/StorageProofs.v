(* Proofs about the storage model (Impl/Storage.v). *)
From Coq Require Import List Arith Bool ZArith Lia.
Import ListNotations.
From PySM Require Import Impl.Storage.

(* induction over Python values that reaches through lists and tuples *)
Section PyvalInd.
  Variable P : pyval -> Prop.
  Hypothesis HNone : P VNone.
  Hypothesis HBool : forall b, P (VBool b).
  Hypothesis HInt : forall z, P (VInt z).
  Hypothesis HStr : forall n, P (VStr n).
  Hypothesis HList : forall l, Forall P l -> P (VList l).
  Hypothesis HTuple : forall l, Forall P l -> P (VTuple l).
  Hypothesis HOpaque : forall i t, P (VOpaque i t).
  Fixpoint pyval_ind' (v : pyval) : P v :=
    match v with
    | VNone => HNone | VBool b => HBool b | VInt z => HInt z | VStr n => HStr n
    | VList l => HList l ((fix go (l : list pyval) : Forall P l :=
                             match l with [] => Forall_nil P | x :: r => Forall_cons x (pyval_ind' x) (go r) end) l)
    | VTuple l => HTuple l ((fix go (l : list pyval) : Forall P l :=
                               match l with [] => Forall_nil P | x :: r => Forall_cons x (pyval_ind' x) (go r) end) l)
    | VOpaque i t => HOpaque i t
    end.
End PyvalInd.

Lemma py_eq_refl : forall v, py_eq v v = true.
Proof.
  induction v as [| b | z | n | l IH | l IH | i t] using pyval_ind'; simpl; auto.
  - destruct b; reflexivity.
  - apply Z.eqb_refl.
  - apply Nat.eqb_refl.
  - induction IH as [|x r Hx _ IHr]; simpl; auto. rewrite Hx. exact IHr.
  - induction IH as [|x r Hx _ IHr]; simpl; auto. rewrite Hx. exact IHr.
  - apply Nat.eqb_refl.
Qed.

Lemma list_eq_sym (l : list pyval) :
  Forall (fun x => forall y, py_eq x y = true -> py_eq y x = true) l ->
  forall l', (fix go (l1 l2 : list pyval) : bool :=
                match l1, l2 with
                | [], [] => true
                | x :: xs, y :: ys => py_eq x y && go xs ys
                | _, _ => false
                end) l l' = true ->
             (fix go (l1 l2 : list pyval) : bool :=
                match l1, l2 with
                | [], [] => true
                | x :: xs, y :: ys => py_eq x y && go xs ys
                | _, _ => false
                end) l' l = true.
Proof.
  induction 1 as [|x r Hx _ IHr]; intros [|y l'] H; simpl in *; auto; try discriminate.
  apply andb_true_iff in H as (H1 & H2). rewrite (Hx _ H1). apply IHr. exact H2.
Qed.

Lemma py_eq_sym : forall x y, py_eq x y = true -> py_eq y x = true.
Proof.
  induction x as [| b | z | n | l IH | l IH | i t] using pyval_ind'; intros y H;
    destruct y as [| b' | z' | n' | l' | l' | i' t']; simpl in *; try discriminate; auto;
    try (apply list_eq_sym; assumption);
    try (destruct b); try (destruct b'); simpl in *; try discriminate; auto;
    try (rewrite Z.eqb_sym; assumption); try (rewrite Nat.eqb_sym; assumption);
    try (apply Z.eqb_eq in H; subst; reflexivity).
Qed.

(* with pairwise different state values, the value of state s is mapped back to s *)
Lemma state_of_value : forall vs i s,
  distinct_values vs = true -> s < length vs -> state_of vs (nth s vs VNone) i = Some (i + s).
Proof.
  induction vs as [|w r IH]; intros i s D L; simpl in L; [lia|].
  simpl in D. apply andb_true_iff in D as (D1 & D2).
  destruct s as [|s]; simpl.
  - rewrite py_eq_refl. f_equal. lia.
  - destruct (py_eq (nth s r VNone) w) eqn:E.
    + exfalso. apply negb_true_iff in D1.
      assert (existsb (py_eq w) r = true) as X.
      { apply existsb_exists. exists (nth s r VNone). split; [apply nth_In; lia|]. apply py_eq_sym. exact E. }
      congruence.
    + rewrite IH by (auto; lia). f_equal. lia.
Qed.

Theorem lookup_value m s :
  distinct_values (sm_values m) = true -> s < length (sm_values m) ->
  lookup_state m (value_of m s) = Some s.
Proof. intros D L. unfold lookup_state, value_of. rewrite state_of_value by auto. reflexivity. Qed.

(* whatever valid value the model stores - written by the machine or from outside - the machine
   reports exactly the state with that value as current, and exactly that one as active *)
Theorem reflects_store m s :
  distinct_values (sm_values m) = true -> s < length (sm_values m) ->
  current_state m (Some (value_of m s)) = Some s /\
  active_flags m (Some (value_of m s)) = Some (map (fun i => Nat.eqb i s) (seq 0 (length (sm_values m)))).
Proof.
  intros D L. unfold active_flags, current_state. rewrite lookup_value by auto. split; reflexivity.
Qed.

Lemma none_active s l : (forall j, In j l -> j <> s) -> filter (fun b : bool => b) (map (fun j => Nat.eqb j s) l) = [].
Proof.
  induction l as [|j r IH]; intros H; simpl; auto.
  destruct (Nat.eqb_spec j s) as [E|N]; [exfalso; apply (H j); [now left|exact E]|].
  apply IH. intros k Hk. apply H. now right.
Qed.

Lemma count_true_eqb s n : s < n ->
  length (filter (fun b : bool => b) (map (fun j => Nat.eqb j s) (seq 0 n))) = 1.
Proof.
  intros L. replace n with (s + S (n - S s)) by lia.
  rewrite seq_app, map_app, filter_app. simpl. rewrite Nat.eqb_refl.
  rewrite none_active, none_active; simpl; auto.
  - intros j Hj. apply in_seq in Hj. lia.
  - intros j Hj. apply in_seq in Hj. lia.
Qed.

Lemma state_of_bound v : forall vs i s, state_of vs v i = Some s -> i <= s < i + length vs.
Proof.
  induction vs as [|w r IH]; intros i s H; simpl in *; [discriminate|].
  destruct (py_eq v w).
  - inversion H; subst. lia.
  - apply IH in H. lia.
Qed.

(* exactly one state is active at any time (whenever there is a current state) *)
Theorem exactly_one_active m st l :
  active_flags m st = Some l -> length (filter (fun b : bool => b) l) = 1.
Proof.
  unfold active_flags. destruct (current_state m st) as [s|] eqn:C; [|discriminate].
  intros H. inversion H; subst. apply count_true_eqb.
  unfold current_state in C. destruct st as [v|]; [|discriminate]. unfold lookup_state in C.
  apply state_of_bound in C. lia.
Qed.

(* the validated setter: an unmapped value raises InvalidStateValue and nothing is stored; a mapped
   value is stored as it is *)
Theorem setter_rejects_unmapped m st v :
  lookup_state m v = None -> sstep m st (SSet v) = (st, SInvalidStateValue).
Proof. intros H. simpl. rewrite H. reflexivity. Qed.

Theorem setter_stores_mapped m st v s :
  lookup_state m v = Some s -> sstep m st (SSet v) = (Some v, SOk).
Proof. intros H. simpl. rewrite H. reflexivity. Qed.

(* after every fired transition the field holds the target's value, and the machine reports the
   target as the current, only active, state *)
Theorem field_is_target m st e s tgt :
  distinct_values (sm_values m) = true -> tgt < length (sm_values m) ->
  current_state m st = Some s -> fire m s e = Some tgt ->
  sstep m st (SSend e) = (Some (value_of m tgt), SOk) /\
  current_state m (Some (value_of m tgt)) = Some tgt.
Proof.
  intros D L C F. simpl. rewrite C, F. split; auto. apply (reflects_store m tgt D L).
Qed.

(* an event that fires nothing, or a rejected write, leaves the stored value untouched *)
Theorem nothing_stored_on_rejection m st o st' r :
  sstep m st o = (st', r) -> r <> SOk -> st' = st.
Proof.
  destruct o as [e|v|v]; simpl.
  - destruct (current_state m st) as [s|]; [destruct (fire m s e)|]; intros H N; inversion H; subst; auto; congruence.
  - destruct (lookup_state m v); intros H N; inversion H; subst; auto; congruence.
  - intros H N. inversion H; subst. congruence.
Qed.

(* construction: a model that already stores something is left alone; otherwise start_value - any
   value, falsy ones included - selects the start state, else the initial state *)
Theorem construct_keeps_stored m sv v : sconstruct m sv (Some v) = (Some v, SOk).
Proof. reflexivity. Qed.

Theorem construct_start_value m v s :
  lookup_state m v = Some s -> sconstruct m (Some v) None = (Some (value_of m s), SOk).
Proof. intros H. simpl. rewrite H. reflexivity. Qed.

Theorem construct_default_initial m : sconstruct m None None = (Some (value_of m (sm_initial m)), SOk).
Proof. reflexivity. Qed.
