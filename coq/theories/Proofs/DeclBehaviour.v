(* C15, the behavioural half: two declarations of a machine whose transitions have, for every
   source state, the same ordered list - whatever the global order in which the class body created
   them - are the same machine for the engine: every history of operations (sends, activation,
   construction over the model, writes, listeners attached later, copies) gives the same
   observations (results, exceptions, stored state, allowed events, callback log). *)
From Coq Require Import List Arith Bool Lia.
Import ListNotations.
From PySM Require Import Impl.Engine Impl.Registry Impl.History Impl.Decl Proofs.EngineExt Proofs.DeclProofs.

Definition with_trans (md : mdecl) (ts : list tdecl) : mdecl :=
  {| md_states := md_states md; md_trans := ts; md_start := md_start md; md_rtc := md_rtc md;
     md_allow := md_allow md; md_providers := md_providers md; md_coro := md_coro md;
     md_rounds := md_rounds md; md_erounds := md_erounds md |}.

Definition from_state (s : nat) (ts : list tdecl) : list tdecl :=
  filter (fun t => Nat.eqb (d_src t) s) ts.

Definition same_per_state (ts1 ts2 : list tdecl) : Prop := forall s, from_state s ts1 = from_state s ts2.

Lemma same_per_state_in ts1 ts2 : same_per_state ts1 ts2 -> forall t, In t ts1 -> In t ts2.
Proof.
  intros H t Hin.
  assert (Hf : In t (from_state (d_src t) ts1)).
  { unfold from_state. apply filter_In. split; [exact Hin | apply Nat.eqb_refl]. }
  rewrite H in Hf. unfold from_state in Hf. apply filter_In in Hf. tauto.
Qed.

Lemma same_per_state_sym ts1 ts2 : same_per_state ts1 ts2 -> same_per_state ts2 ts1.
Proof. intros H s. symmetry. apply H. Qed.

Lemma existsb_same_members {A} (f : A -> bool) l1 l2 :
  (forall x, In x l1 -> In x l2) -> (forall x, In x l2 -> In x l1) -> existsb f l1 = existsb f l2.
Proof.
  intros H12 H21.
  destruct (existsb f l1) eqn:E1; destruct (existsb f l2) eqn:E2; auto.
  - apply existsb_exists in E1 as (x & Hx & Hf).
    assert (existsb f l2 = true) by (apply existsb_exists; exists x; auto). congruence.
  - apply existsb_exists in E2 as (x & Hx & Hf).
    assert (existsb f l1 = true) by (apply existsb_exists; exists x; auto). congruence.
Qed.

Section Resolved.
  Variable md : mdecl.
  Variables ts1 ts2 : list tdecl.
  Hypothesis Hps : same_per_state ts1 ts2.

  Lemma outs_resolve ts s :
    outs (resolve (with_trans md ts)) s = map (resolve_trans md) (from_state s ts).
  Proof.
    unfold outs, resolve, resolve_all, from_state. cbn [rm_trans md_trans with_trans].
    change (resolve_trans (with_trans md ts)) with (resolve_trans md).
    induction ts as [|t r IH]; simpl; auto.
    destruct (Nat.eqb (d_src t) s); simpl; rewrite IH; reflexivity.
  Qed.

  Lemma r_outs s : outs (resolve (with_trans md ts1)) s = outs (resolve (with_trans md ts2)) s.
  Proof. rewrite !outs_resolve, Hps. reflexivity. Qed.

  Lemma r_states : rm_states (resolve (with_trans md ts1)) = rm_states (resolve (with_trans md ts2)).
  Proof. reflexivity. Qed.

  Lemma r_start : rm_start (resolve (with_trans md ts1)) = rm_start (resolve (with_trans md ts2)).
  Proof. reflexivity. Qed.

  Lemma r_rtc : rm_rtc (resolve (with_trans md ts1)) = rm_rtc (resolve (with_trans md ts2)).
  Proof. reflexivity. Qed.

  Lemma r_allow : rm_allow (resolve (with_trans md ts1)) = rm_allow (resolve (with_trans md ts2)).
  Proof. reflexivity. Qed.

  Lemma async_all_members (m : mdecl) (ta tb : list tdecl) :
    (forall t, In t ta -> In t tb) ->
    forall w,
      In w (flat_map trans_wrappers (map (resolve_trans m) ta)) ->
      In w (flat_map trans_wrappers (map (resolve_trans m) tb)).
  Proof.
    intros H w Hw. apply in_flat_map in Hw as (rt & Hrt & Hw).
    apply in_map_iff in Hrt as (t & <- & Ht).
    apply in_flat_map. exists (resolve_trans m t). split; [|exact Hw].
    apply in_map_iff. exists t. auto.
  Qed.

  Lemma r_async : rm_async (resolve (with_trans md ts1)) = rm_async (resolve (with_trans md ts2)).
  Proof.
    unfold resolve. cbn [rm_async]. unfold resolve_all. cbn [rm_async].
    cbn [md_trans md_states md_rounds md_erounds with_trans with_rounds].
    set (m1 := with_rounds (with_trans md ts1) _).
    set (m2 := with_rounds (with_trans md ts2) _).
    change (resolve_trans m2) with (resolve_trans m1).
    change (resolve_state m2) with (resolve_state m1).
    change (wrapper_is_coro m2) with (wrapper_is_coro m1).
    apply existsb_same_members; intros w Hw; apply in_app_iff in Hw as [Hw|Hw]; apply in_app_iff; auto; left.
    - revert Hw. apply async_all_members. apply same_per_state_in. exact Hps.
    - revert Hw. apply async_all_members. apply same_per_state_in. apply same_per_state_sym. exact Hps.
  Qed.

  Lemma r_allowed s :
    allowed_events (resolve (with_trans md ts1)) s = allowed_events (resolve (with_trans md ts2)) s.
  Proof. unfold allowed_events. rewrite r_outs. reflexivity. Qed.

  Lemma r_mkobs r c : mkobs (resolve (with_trans md ts1)) r c = mkobs (resolve (with_trans md ts2)) r c.
  Proof. unfold mkobs. destruct (field c) as [s|]; [rewrite r_allowed|]; reflexivity. Qed.

  Lemma r_send beh fuel td c :
    send beh (resolve (with_trans md ts1)) fuel td c = send beh (resolve (with_trans md ts2)) fuel td c.
  Proof. apply x_send; auto using r_states, r_start, r_rtc, r_allow, r_async, r_outs. Qed.

  Lemma r_run_loop beh fuel c :
    run_loop beh (resolve (with_trans md ts1)) fuel c = run_loop beh (resolve (with_trans md ts2)) fuel c.
  Proof. apply x_run_loop; auto using r_states, r_start, r_rtc, r_allow, r_async, r_outs. Qed.

  Lemma r_construct beh fuel c :
    construct beh (resolve (with_trans md ts1)) fuel c = construct beh (resolve (with_trans md ts2)) fuel c.
  Proof. apply x_construct; auto using r_states, r_start, r_rtc, r_allow, r_async, r_outs. Qed.
End Resolved.

(* the declaration an operation leaves behind *)
Definition md_next (o : op) (md : mdecl) : mdecl :=
  match o with
  | OAdd ps => add_round md ps | OClone => clone_md md | OConstruct => construct_md md | _ => md
  end.

Lemma md_next_with_trans o md ts : md_next o (with_trans md ts) = with_trans (md_next o md) ts.
Proof. destruct o; reflexivity. Qed.

Lemma run_op_md beh md fuel o c : fst (fst (run_op beh md fuel o c)) = md_next o md.
Proof.
  unfold run_op.
  match goal with |- fst (fst (match ?r with _ => _ end)) = _ => destruct r end; destruct o; reflexivity.
Qed.

Lemma run_op_same beh md ts1 ts2 fuel o c :
  same_per_state ts1 ts2 ->
  snd (fst (run_op beh (with_trans md ts1) fuel o c)) = snd (fst (run_op beh (with_trans md ts2) fuel o c)) /\
  snd (run_op beh (with_trans md ts1) fuel o c) = snd (run_op beh (with_trans md ts2) fuel o c).
Proof.
  intros Hps. unfold run_op.
  assert (Hr :
    match o with
    | OSend e tag => send beh (resolve (with_trans md ts1)) fuel {| td_ev := Some e; td_tag := tag |} (clear_log c)
    | OActivate => run_loop beh (resolve (with_trans md ts1)) fuel (clear_log c)
    | OConstruct =>
        do (c1, _v) <- construct beh (resolve (construct_md (with_trans md ts1))) fuel (new_engine (clear_log c)); Ok c1 no_res
    | OWrite s => Ok (set_field (clear_log c) (Some s)) no_res
    | OAdd _ => Ok (clear_log c) no_res
    | OClone =>
        do (c1, _v) <- construct beh (resolve (clone_md (with_trans md ts1))) fuel (new_engine (clear_log c)); Ok c1 no_res
    end =
    match o with
    | OSend e tag => send beh (resolve (with_trans md ts2)) fuel {| td_ev := Some e; td_tag := tag |} (clear_log c)
    | OActivate => run_loop beh (resolve (with_trans md ts2)) fuel (clear_log c)
    | OConstruct =>
        do (c1, _v) <- construct beh (resolve (construct_md (with_trans md ts2))) fuel (new_engine (clear_log c)); Ok c1 no_res
    | OWrite s => Ok (set_field (clear_log c) (Some s)) no_res
    | OAdd _ => Ok (clear_log c) no_res
    | OClone =>
        do (c1, _v) <- construct beh (resolve (clone_md (with_trans md ts2))) fuel (new_engine (clear_log c)); Ok c1 no_res
    end).
  { destruct o as [e tag| | |s|ps|].
    - apply r_send; exact Hps.
    - apply r_run_loop; exact Hps.
    - change (construct_md (with_trans md ts1)) with (with_trans (construct_md md) ts1).
      change (construct_md (with_trans md ts2)) with (with_trans (construct_md md) ts2).
      rewrite (r_construct (construct_md md) ts1 ts2 Hps). reflexivity.
    - reflexivity.
    - reflexivity.
    - change (clone_md (with_trans md ts1)) with (with_trans (clone_md md) ts1).
      change (clone_md (with_trans md ts2)) with (with_trans (clone_md md) ts2).
      rewrite (r_construct (clone_md md) ts1 ts2 Hps). reflexivity. }
  rewrite Hr. clear Hr.
  assert (Hm : forall r c',
    mkobs (resolve (md_next o (with_trans md ts1))) r c' = mkobs (resolve (md_next o (with_trans md ts2))) r c').
  { intros r c'. rewrite !md_next_with_trans. apply r_mkobs. exact Hps. }
  unfold md_next in Hm.
  match goal with |- context [match ?r with Ok _ _ => _ | Exn _ _ => _ | Fuel => _ end] => destruct r end;
    simpl; rewrite Hm; auto.
Qed.

Theorem run_ops_same beh fuel : forall ops md ts1 ts2 c,
  same_per_state ts1 ts2 ->
  run_ops beh (with_trans md ts1) fuel ops c = run_ops beh (with_trans md ts2) fuel ops c.
Proof.
  induction ops as [|o r IH]; intros md ts1 ts2 c Hps; cbn [run_ops]; auto.
  pose proof (run_op_same beh md ts1 ts2 fuel o c Hps) as (Hc & Hob).
  pose proof (run_op_md beh (with_trans md ts1) fuel o c) as Hm1.
  pose proof (run_op_md beh (with_trans md ts2) fuel o c) as Hm2.
  destruct (run_op beh (with_trans md ts1) fuel o c) as [[m1 c1] ob1].
  destruct (run_op beh (with_trans md ts2) fuel o c) as [[m2 c2] ob2].
  simpl in *. subst. rewrite !md_next_with_trans.
  rewrite (IH (md_next o md) ts1 ts2 c2 Hps).
  reflexivity.
Qed.

(* ---- from the declaration calls of Decl.v to declared transitions ---- *)
(* what the opaque keyword arguments of a declaration call stand for *)
Record kwargs := {
  k_internal : bool; k_validators : list cbname; k_cond : list (cbname * bool);
  k_before : list cbname; k_on : list cbname; k_after : list cbname }.

Definition to_tdecl (kw : nat -> kwargs) (t : atr) : tdecl :=
  let k := kw (a_kw t) in
  {| d_src := a_src t; d_tgt := a_tgt t; d_events := a_events t; d_internal := k_internal k;
     d_validators := k_validators k; d_cond := k_cond k; d_before := k_before k; d_on := k_on k;
     d_after := k_after k |}.

Lemma from_state_map kw m s : from_state s (map (to_tdecl kw) m) = map (to_tdecl kw) (per_state m s).
Proof.
  unfold from_state, per_state. induction m as [|t r IH]; simpl; auto.
  destruct (Nat.eqb (a_src t) s); simpl; rewrite IH; reflexivity.
Qed.

(* two class bodies that give every state the same ordered transition list declare machines with
   the same observations on every history, for every meaning of the keyword arguments, every
   set of states / providers / options, every behaviour of the callbacks *)
Theorem same_per_state_same_behaviour kw md b1 b2 :
  (forall s, per_state (eval_body b1) s = per_state (eval_body b2) s) ->
  forall beh fuel ops c,
    run_ops beh (with_trans md (map (to_tdecl kw) (eval_body b1))) fuel ops c =
    run_ops beh (with_trans md (map (to_tdecl kw) (eval_body b2))) fuel ops c.
Proof.
  intros H beh fuel ops c. apply run_ops_same. intros s. rewrite !from_state_map, H. reflexivity.
Qed.

(* ---- a rendering that really changes the global creation order: the body written state by state
   (all transitions leaving the first listed state, then those leaving the second, ...) instead of
   event by event ---- *)
Definition regroup (m : amachine) (ss : list nat) : amachine := flat_map (per_state m) ss.

Lemma per_state_app m1 m2 s : per_state (m1 ++ m2) s = per_state m1 s ++ per_state m2 s.
Proof. unfold per_state. apply filter_app. Qed.

Lemma per_state_per_state m s' s :
  per_state (per_state m s') s = if Nat.eqb s' s then per_state m s else [].
Proof.
  unfold per_state. induction m as [|t r IH]; simpl.
  - destruct (Nat.eqb s' s); reflexivity.
  - destruct (Nat.eqb (a_src t) s') eqn:E1; simpl.
    + apply Nat.eqb_eq in E1. rewrite IH. rewrite E1.
      destruct (Nat.eqb s' s) eqn:E2; simpl; reflexivity.
    + rewrite IH. destruct (Nat.eqb s' s) eqn:E2; auto.
      apply Nat.eqb_eq in E2. subst s'. rewrite E1. reflexivity.
Qed.

Lemma per_state_nil m s : (forall t, In t m -> a_src t <> s) -> per_state m s = [].
Proof.
  unfold per_state. induction m as [|t r IH]; intros H; simpl; auto.
  destruct (Nat.eqb (a_src t) s) eqn:E.
  - apply Nat.eqb_eq in E. exfalso. apply (H t); simpl; auto.
  - apply IH. intros t' Ht'. apply H. simpl; auto.
Qed.

Lemma regroup_absent m : forall ss s, ~ In s ss -> per_state (regroup m ss) s = [].
Proof.
  induction ss as [|s' r IH]; intros s Hn; simpl; auto.
  unfold regroup in *. simpl. rewrite per_state_app, per_state_per_state.
  destruct (Nat.eqb s' s) eqn:E.
  - apply Nat.eqb_eq in E. subst. exfalso. apply Hn. simpl; auto.
  - simpl. apply IH. intros Hin. apply Hn. simpl; auto.
Qed.

Theorem regroup_per_state m ss :
  NoDup ss -> (forall t, In t m -> In (a_src t) ss) ->
  forall s, per_state (regroup m ss) s = per_state m s.
Proof.
  intros Hnd Hall s.
  destruct (in_dec Nat.eq_dec s ss) as [Hin|Hout].
  - clear Hall. induction Hnd as [|s' r Hnotin Hnd IH]; [destruct Hin|].
    unfold regroup in *. simpl. rewrite per_state_app, per_state_per_state.
    destruct (Nat.eqb s' s) eqn:E.
    + apply Nat.eqb_eq in E. subst s'.
      fold (regroup m r). rewrite regroup_absent by exact Hnotin. apply app_nil_r.
    + simpl. apply IH. destruct Hin as [->|Hin]; [rewrite Nat.eqb_refl in E; discriminate | exact Hin].
  - rewrite regroup_absent by exact Hout. symmetry. apply per_state_nil.
    intros t Ht Heq. apply Hout. rewrite <- Heq. apply Hall. exact Ht.
Qed.

(* the class body written event by event (any of the call styles) and the body written state by
   state are the same machine on every history *)
Theorem statement_order_across_states_irrelevant kw md m ss :
  NoDup ss -> (forall t, In t m -> In (a_src t) ss) ->
  forall beh fuel ops c,
    run_ops beh (with_trans md (map (to_tdecl kw) (eval_body (render_to (regroup m ss))))) fuel ops c =
    run_ops beh (with_trans md (map (to_tdecl kw) (eval_body (render_to m)))) fuel ops c.
Proof.
  intros Hnd Hall. apply same_per_state_same_behaviour.
  intros s. rewrite !Proofs.DeclProofs.to_style. apply regroup_per_state; assumption.
Qed.
