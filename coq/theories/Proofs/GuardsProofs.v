(* The closure tree built by spec_parser.build_expression evaluates like Python evaluates the
   expression it was built from. *)
From Coq Require Import List Arith Bool ZArith Lia.
Import ListNotations.
From PySM Require Import Impl.Guards.

(* induction principle that reaches through the operand lists *)
Section ExprInd.
  Variable P : expr -> Prop.
  Hypothesis Hname : forall n, P (EName n).
  Hypothesis Hconst : forall v, P (EConst v).
  Hypothesis Hnot : forall e, P e -> P (ENot e).
  Hypothesis Hand : forall e r, P e -> Forall P r -> P (EAnd e r).
  Hypothesis Hor : forall e r, P e -> Forall P r -> P (EOr e r).
  Hypothesis Hcmp : forall e r, P e -> Forall (fun oe => P (snd oe)) r -> P (ECmp e r).

  Fixpoint expr_ind' (e : expr) : P e :=
    match e with
    | EName n => Hname n
    | EConst v => Hconst v
    | ENot x => Hnot x (expr_ind' x)
    | EAnd x r => Hand x r (expr_ind' x)
                    ((fix go (l : list expr) : Forall P l :=
                        match l with [] => Forall_nil P | y :: t => Forall_cons y (expr_ind' y) (go t) end) r)
    | EOr x r => Hor x r (expr_ind' x)
                   ((fix go (l : list expr) : Forall P l :=
                       match l with [] => Forall_nil P | y :: t => Forall_cons y (expr_ind' y) (go t) end) r)
    | ECmp x r => Hcmp x r (expr_ind' x)
                    ((fix go (l : list (cmpop * expr)) : Forall (fun oe => P (snd oe)) l :=
                        match l with
                        | [] => Forall_nil _
                        | y :: t => Forall_cons y (expr_ind' (snd y)) (go t)
                        end) r)
    end.
End ExprInd.

Section Equiv.
  Variable rho : env.
  Notation ev := (py_eval rho).
  Notation ek := (eval_closure rho).

  Definition same (e : expr) : Prop := ek (build e) = ev e.

  Lemma fold_and_error : forall l acc rd, ek acc = (ETypeError, rd) -> ek (fold_and build acc l) = (ETypeError, rd).
  Proof. induction l as [|x r IH]; intros acc rd H; simpl; auto. apply IH. simpl. rewrite H. reflexivity. Qed.

  Lemma fold_or_error : forall l acc rd, ek acc = (ETypeError, rd) -> ek (fold_or build acc l) = (ETypeError, rd).
  Proof. induction l as [|x r IH]; intros acc rd H; simpl; auto. apply IH. simpl. rewrite H. reflexivity. Qed.

  Lemma fold_and_eval : forall l, Forall same l -> forall acc v rd,
    ek acc = (EV v, rd) ->
    ek (fold_and build acc l) = (let '(res, rd') := and_rest ev v l in (res, rd ++ rd')).
  Proof.
    induction l as [|x r IH]; intros HF acc v rd H; simpl.
    - rewrite H, app_nil_r. reflexivity.
    - inversion HF as [|? ? Hx Hr]; subst.
      destruct (truthy v) eqn:T.
      + unfold same in Hx. destruct (ev x) as [[w|] rdx] eqn:E.
        * rewrite (IH Hr (KAnd acc (build x)) w (rd ++ rdx)).
          -- destruct (and_rest ev w r) as [res rd']. rewrite app_assoc. reflexivity.
          -- simpl. rewrite H, T, Hx. reflexivity.
        * apply fold_and_error. simpl. rewrite H, T, Hx. reflexivity.
      + rewrite (IH Hr (KAnd acc (build x)) v rd).
        * destruct r as [|y r']; simpl; [reflexivity|]. rewrite T. reflexivity.
        * simpl. rewrite H, T. reflexivity.
  Qed.

  Lemma fold_or_eval : forall l, Forall same l -> forall acc v rd,
    ek acc = (EV v, rd) ->
    ek (fold_or build acc l) = (let '(res, rd') := or_rest ev v l in (res, rd ++ rd')).
  Proof.
    induction l as [|x r IH]; intros HF acc v rd H; simpl.
    - rewrite H, app_nil_r. reflexivity.
    - inversion HF as [|? ? Hx Hr]; subst.
      destruct (truthy v) eqn:T.
      + rewrite (IH Hr (KOr acc (build x)) v rd).
        * destruct r as [|y r']; simpl; [reflexivity|]. rewrite T. reflexivity.
        * simpl. rewrite H, T. reflexivity.
      + unfold same in Hx. destruct (ev x) as [[w|] rdx] eqn:E.
        * rewrite (IH Hr (KOr acc (build x)) w (rd ++ rdx)).
          -- destruct (or_rest ev w r) as [res rd']. rewrite app_assoc. reflexivity.
          -- simpl. rewrite H, T, Hx. reflexivity.
        * apply fold_or_error. simpl. rewrite H, T, Hx. reflexivity.
  Qed.

  (* expressions whose comparisons are not chained (a < b, not a < b < c) *)
  Fixpoint chain_free (e : expr) : bool :=
    match e with
    | EName _ | EConst _ => true
    | ENot x => chain_free x
    | EAnd x r => chain_free x && forallb chain_free r
    | EOr x r => chain_free x && forallb chain_free r
    | ECmp x r => chain_free x && match r with
                                  | [] => true
                                  | [(_, y)] => chain_free y
                                  | _ => false
                                  end
    end.

  (* same value, same exception, same sequence of name reads *)
  Theorem build_is_python_chain_free : forall e, chain_free e = true -> ek (build e) = ev e.
  Proof.
    induction e as [n|v|x IH|x r IHx IHr|x r IHx IHr|x r IHx IHr] using expr_ind'; intros C; simpl in *.
    - reflexivity.
    - reflexivity.
    - rewrite IH by exact C. reflexivity.
    - apply andb_true_iff in C as (Cx & Cr).
      assert (HF : Forall same r).
      { rewrite forallb_forall in Cr. rewrite Forall_forall in *. intros y Hy. apply IHr; auto. }
      specialize (IHx Cx). destruct (ev x) as [[v|] rd] eqn:E.
      + rewrite (fold_and_eval r HF (build x) v rd IHx). reflexivity.
      + apply fold_and_error. exact IHx.
    - apply andb_true_iff in C as (Cx & Cr).
      assert (HF : Forall same r).
      { rewrite forallb_forall in Cr. rewrite Forall_forall in *. intros y Hy. apply IHr; auto. }
      specialize (IHx Cx). destruct (ev x) as [[v|] rd] eqn:E.
      + rewrite (fold_or_eval r HF (build x) v rd IHx). reflexivity.
      + apply fold_or_error. exact IHx.
    - apply andb_true_iff in C as (Cx & Cr). specialize (IHx Cx).
      destruct r as [|[op y] [|z r']]; try discriminate.
      + simpl. rewrite IHx. destruct (ev x) as [[v|] rd]; reflexivity.
      + inversion IHr as [|? ? Hy _]; subst. simpl in Hy. specialize (Hy Cr).
        simpl. rewrite IHx. destruct (ev x) as [[v|] rd]; [|reflexivity].
        rewrite Hy. destruct (ev y) as [[w|] rdy]; [|reflexivity].
        destruct (py_cmp op v w) as [[|]|]; simpl; rewrite ?app_nil_r; reflexivity.
  Qed.
End Equiv.

(* consequence for guards: an entry holds iff Python's value of the expression has the expected
   truthiness; a TypeError raised by a comparison propagates *)
Theorem guard_is_python rho e expected :
  chain_free e = true ->
  guard_holds rho e expected =
    match fst (py_eval rho e) with
    | EV v => Some (Bool.eqb (truthy v) expected)
    | ETypeError => None
    end.
Proof. intros C. unfold guard_holds. rewrite build_is_python_chain_free by exact C. reflexivity. Qed.

(* Python's precedence-free facts used by the documentation: `and` / `or` short-circuit left to
   right; `not` yields a bool *)
Lemma and_short_circuit rho x r v rd :
  py_eval rho x = (EV v, rd) -> truthy v = false -> py_eval rho (EAnd x r) = (EV v, rd).
Proof.
  intros H T. simpl. rewrite H. destruct r as [|y r']; simpl; rewrite ?T, app_nil_r; reflexivity.
Qed.

Lemma or_short_circuit rho x r v rd :
  py_eval rho x = (EV v, rd) -> truthy v = true -> py_eval rho (EOr x r) = (EV v, rd).
Proof.
  intros H T. simpl. rewrite H. destruct r as [|y r']; simpl; rewrite ?T, app_nil_r; reflexivity.
Qed.
