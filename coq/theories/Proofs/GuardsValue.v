(* C08: for every expression of the grammar - chained comparisons included - the closure tree built
   by spec_parser.build_expression has the same value / raises the same TypeError as Python's own
   evaluation, in every environment.  (The sequence of name reads differs for chains only: the
   library evaluates a middle operand once per comparison it takes part in; GuardsProofs.v has the
   read-exact statement for chain-free expressions.) *)
From Coq Require Import List Arith Bool ZArith Lia.
Import ListNotations.
From PySM Require Import Impl.Guards Proofs.GuardsProofs.

Section Values.
  Variable rho : env.

  (* value-only readings of the two evaluators *)
  Section RestV.
    Variable evv : expr -> eres.
    Fixpoint and_restv (v : pyval) (l : list expr) : eres :=
      match l with
      | [] => EV v
      | x :: r => if truthy v then match evv x with EV w => and_restv w r | ETypeError => ETypeError end else EV v
      end.
    Fixpoint or_restv (v : pyval) (l : list expr) : eres :=
      match l with
      | [] => EV v
      | x :: r => if truthy v then EV v else match evv x with EV w => or_restv w r | ETypeError => ETypeError end
      end.
    Fixpoint cmp_restv (left : pyval) (l : list (cmpop * expr)) : eres :=
      match l with
      | [] => EV (VBool true)
      | (op, x) :: r =>
          match evv x with
          | EV w => match py_cmp op left w with
                    | None => ETypeError
                    | Some false => EV (VBool false)
                    | Some true => cmp_restv w r
                    end
          | ETypeError => ETypeError
          end
      end.
  End RestV.

  Fixpoint py_val (e : expr) : eres :=
    match e with
    | EName n => EV (rho n)
    | EConst v => EV v
    | ENot x => match py_val x with EV v => EV (VBool (negb (truthy v))) | ETypeError => ETypeError end
    | EAnd x r => match py_val x with EV v => and_restv py_val v r | ETypeError => ETypeError end
    | EOr x r => match py_val x with EV v => or_restv py_val v r | ETypeError => ETypeError end
    | ECmp x r => match py_val x with
                  | EV v => match r with [] => EV v | _ => cmp_restv py_val v r end
                  | ETypeError => ETypeError
                  end
    end.

  Fixpoint clo_val (k : closure) : eres :=
    match k with
    | KVar n => EV (rho n)
    | KConst v => EV v
    | KNot a => match clo_val a with EV v => EV (VBool (negb (truthy v))) | ETypeError => ETypeError end
    | KAnd a b => match clo_val a with EV v => if truthy v then clo_val b else EV v | ETypeError => ETypeError end
    | KOr a b => match clo_val a with EV v => if truthy v then EV v else clo_val b | ETypeError => ETypeError end
    | KCmp op a b =>
        match clo_val a with
        | EV v => match clo_val b with
                  | EV w => match py_cmp op v w with Some r => EV (VBool r) | None => ETypeError end
                  | ETypeError => ETypeError
                  end
        | ETypeError => ETypeError
        end
    end.

  (* they are the first components of the evaluators with reads *)
  Lemma clo_val_fst : forall k, fst (eval_closure rho k) = clo_val k.
  Proof.
    induction k as [n|v|a IHa|a IHa b IHb|a IHa b IHb|op a IHa b IHb]; simpl; auto.
    - rewrite <- IHa. destruct (eval_closure rho a) as [[v|] rd]; reflexivity.
    - rewrite <- IHa, <- IHb. destruct (eval_closure rho a) as [[v|] rd]; simpl; auto.
      destruct (truthy v); auto. destruct (eval_closure rho b) as [res rd']; reflexivity.
    - rewrite <- IHa, <- IHb. destruct (eval_closure rho a) as [[v|] rd]; simpl; auto.
      destruct (truthy v); auto. destruct (eval_closure rho b) as [res rd']; reflexivity.
    - rewrite <- IHa, <- IHb. destruct (eval_closure rho a) as [[v|] rd]; simpl; auto.
      destruct (eval_closure rho b) as [[w|] rd']; simpl; auto. destruct (py_cmp op v w); reflexivity.
  Qed.

  Definition fstv (e : expr) : Prop := fst (py_eval rho e) = py_val e.

  Lemma and_rest_fst : forall l, Forall fstv l -> forall v, fst (and_rest (py_eval rho) v l) = and_restv py_val v l.
  Proof.
    induction l as [|x r IH]; intros HF v; simpl; auto. inversion HF as [|? ? Hx Hr]; subst.
    destruct (truthy v); auto. unfold fstv in Hx. rewrite <- Hx.
    destruct (py_eval rho x) as [[w|] rd]; simpl; auto. rewrite <- (IH Hr w).
    destruct (and_rest (py_eval rho) w r); reflexivity.
  Qed.

  Lemma or_rest_fst : forall l, Forall fstv l -> forall v, fst (or_rest (py_eval rho) v l) = or_restv py_val v l.
  Proof.
    induction l as [|x r IH]; intros HF v; simpl; auto. inversion HF as [|? ? Hx Hr]; subst.
    destruct (truthy v); auto. unfold fstv in Hx. rewrite <- Hx.
    destruct (py_eval rho x) as [[w|] rd]; simpl; auto. rewrite <- (IH Hr w).
    destruct (or_rest (py_eval rho) w r); reflexivity.
  Qed.

  Lemma cmp_rest_fst : forall l, Forall (fun oe => fstv (snd oe)) l ->
    forall v, fst (cmp_rest (py_eval rho) v l) = cmp_restv py_val v l.
  Proof.
    induction l as [|[op x] r IH]; intros HF v; simpl; auto. inversion HF as [|? ? Hx Hr]; subst.
    simpl in Hx. unfold fstv in Hx. rewrite <- Hx.
    destruct (py_eval rho x) as [[w|] rd]; simpl; auto.
    destruct (py_cmp op v w) as [[|]|]; simpl; auto. rewrite <- (IH Hr w).
    destruct (cmp_rest (py_eval rho) w r); reflexivity.
  Qed.

  Lemma py_val_fst : forall e, fst (py_eval rho e) = py_val e.
  Proof.
    induction e as [n|v|x IH|x r IHx IHr|x r IHx IHr|x r IHx IHr] using expr_ind'; simpl; auto.
    - rewrite <- IH. destruct (py_eval rho x) as [[v|] rd]; reflexivity.
    - rewrite <- IHx. destruct (py_eval rho x) as [[v|] rd]; simpl; auto.
      rewrite <- (and_rest_fst r IHr v). destruct (and_rest (py_eval rho) v r); reflexivity.
    - rewrite <- IHx. destruct (py_eval rho x) as [[v|] rd]; simpl; auto.
      rewrite <- (or_rest_fst r IHr v). destruct (or_rest (py_eval rho) v r); reflexivity.
    - rewrite <- IHx. destruct (py_eval rho x) as [[v|] rd]; simpl; auto.
      destruct r as [|oe r']; auto.
      rewrite <- (cmp_rest_fst (oe :: r') IHr v). destruct (cmp_rest (py_eval rho) v (oe :: r')); reflexivity.
  Qed.

  (* ---------- build, at the level of values ---------- *)
  Definition samev (e : expr) : Prop := clo_val (build e) = py_val e.

  Lemma fold_and_errv : forall l acc, clo_val acc = ETypeError -> clo_val (fold_and build acc l) = ETypeError.
  Proof. induction l as [|x r IH]; intros acc H; simpl; auto. apply IH. simpl. rewrite H. reflexivity. Qed.

  Lemma fold_or_errv : forall l acc, clo_val acc = ETypeError -> clo_val (fold_or build acc l) = ETypeError.
  Proof. induction l as [|x r IH]; intros acc H; simpl; auto. apply IH. simpl. rewrite H. reflexivity. Qed.

  Lemma fold_and_val : forall l, Forall samev l -> forall acc v, clo_val acc = EV v ->
    clo_val (fold_and build acc l) = and_restv py_val v l.
  Proof.
    induction l as [|x r IH]; intros HF acc v H; simpl; auto. inversion HF as [|? ? Hx Hr]; subst. unfold samev in Hx.
    destruct (truthy v) eqn:T.
    - destruct (py_val x) as [w|] eqn:E.
      + apply (IH Hr). simpl. rewrite H, T, Hx. reflexivity.
      + apply fold_and_errv. simpl. rewrite H, T, Hx. reflexivity.
    - rewrite (IH Hr (KAnd acc (build x)) v).
      + destruct r; simpl; auto. rewrite T. reflexivity.
      + simpl. rewrite H, T. reflexivity.
  Qed.

  Lemma fold_or_val : forall l, Forall samev l -> forall acc v, clo_val acc = EV v ->
    clo_val (fold_or build acc l) = or_restv py_val v l.
  Proof.
    induction l as [|x r IH]; intros HF acc v H; simpl; auto. inversion HF as [|? ? Hx Hr]; subst. unfold samev in Hx.
    destruct (truthy v) eqn:T.
    - rewrite (IH Hr (KOr acc (build x)) v).
      + destruct r; simpl; auto. rewrite T. reflexivity.
      + simpl. rewrite H, T. reflexivity.
    - destruct (py_val x) as [w|] eqn:E.
      + apply (IH Hr). simpl. rewrite H, T, Hx. reflexivity.
      + apply fold_or_errv. simpl. rewrite H, T, Hx. reflexivity.
  Qed.

  (* reduce(custom_and, comparisons): an error or a false comparison ends the chain *)
  Lemma chain_err : forall cs acc, clo_val acc = ETypeError -> clo_val (fold_left KAnd cs acc) = ETypeError.
  Proof. induction cs as [|c cs IH]; intros acc H; simpl; auto. apply IH. simpl. rewrite H. reflexivity. Qed.

  Lemma chain_false : forall cs acc, clo_val acc = EV (VBool false) -> clo_val (fold_left KAnd cs acc) = EV (VBool false).
  Proof. induction cs as [|c cs IH]; intros acc H; simpl; auto. apply IH. simpl. rewrite H. reflexivity. Qed.

  Lemma chain_val : forall l, Forall (fun oe => samev (snd oe)) l ->
    forall kleft v acc, clo_val kleft = EV v -> clo_val acc = EV (VBool true) ->
      clo_val (fold_left KAnd (pairs build kleft l) acc) = cmp_restv py_val v l.
  Proof.
    induction l as [|[op y] r IH]; intros HF kleft v acc Hl Ha; simpl; auto.
    inversion HF as [|? ? Hy Hr]; subst. simpl in Hy. unfold samev in Hy.
    assert (Step : clo_val (KAnd acc (KCmp op kleft (build y))) =
                   match py_val y with
                   | EV w => match py_cmp op v w with Some b => EV (VBool b) | None => ETypeError end
                   | ETypeError => ETypeError
                   end).
    { simpl. rewrite Ha, Hl, Hy. reflexivity. }
    destruct (py_val y) as [w|] eqn:E.
    - destruct (py_cmp op v w) as [[|]|] eqn:C.
      + apply (IH Hr); auto.
      + apply chain_false. exact Step.
      + apply chain_err. exact Step.
    - apply chain_err. exact Step.
  Qed.

  Theorem build_value_is_python : forall e, clo_val (build e) = py_val e.
  Proof.
    induction e as [n|v|x IH|x r IHx IHr|x r IHx IHr|x r IHx IHr] using expr_ind'; simpl; auto.
    - rewrite IH. reflexivity.
    - destruct (py_val x) as [v|] eqn:E.
      + apply fold_and_val; auto.
      + apply fold_and_errv. exact IHx.
    - destruct (py_val x) as [v|] eqn:E.
      + apply fold_or_val; auto.
      + apply fold_or_errv. exact IHx.
    - destruct r as [|[op y] r'].
      + simpl. rewrite IHx. destruct (py_val x); reflexivity.
      + inversion IHr as [|? ? Hy Hr]; subst. simpl in Hy. unfold samev in *. simpl pairs.
        assert (First : clo_val (KCmp op (build x) (build y)) =
                        match py_val x with
                        | EV v => match py_val y with
                                  | EV w => match py_cmp op v w with Some b => EV (VBool b) | None => ETypeError end
                                  | ETypeError => ETypeError
                                  end
                        | ETypeError => ETypeError
                        end).
        { simpl. rewrite IHx, Hy. reflexivity. }
        destruct (py_val x) as [v|] eqn:Ex; [|apply chain_err; exact First].
        simpl cmp_restv. destruct (py_val y) as [w|] eqn:Ey; [|apply chain_err; exact First].
        destruct (py_cmp op v w) as [[|]|] eqn:C.
        * apply (chain_val r' Hr (build y) w); auto.
        * apply chain_false. exact First.
        * apply chain_err. exact First.
  Qed.
End Values.

(* same value, same TypeError, for every expression and environment *)
Theorem build_value_is_python_fst rho e : fst (eval_closure rho (build e)) = fst (py_eval rho e).
Proof. rewrite clo_val_fst, py_val_fst. apply build_value_is_python. Qed.

Theorem guard_is_python_all rho e expected :
  guard_holds rho e expected =
    match fst (py_eval rho e) with
    | EV v => Some (Bool.eqb (truthy v) expected)
    | ETypeError => None
    end.
Proof. unfold guard_holds. rewrite build_value_is_python_fst. reflexivity. Qed.
