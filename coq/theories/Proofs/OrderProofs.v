(* C13: allowed_events lists the events in the order of their first declaration among the
   transitions leaving the state. *)
From Coq Require Import List Arith Bool Lia.
Import ListNotations.
From PySM Require Import Impl.Engine Impl.History Proofs.EngineProofs.

Lemma existsb_eqb_in y seen : existsb (Nat.eqb y) seen = true <-> In y seen.
Proof.
  rewrite existsb_exists. split.
  - intros (z & Hz & E). apply Nat.eqb_eq in E. subst. exact Hz.
  - intros H. exists y. split; auto. apply Nat.eqb_refl.
Qed.

(* what has been listed for a prefix is never revised by what follows *)
Lemma uniq_app : forall l1 l2 seen, exists seen',
  (forall z, In z seen' <-> In z l1 \/ In z seen) /\ uniq seen (l1 ++ l2) = uniq seen l1 ++ uniq seen' l2.
Proof.
  induction l1 as [|x r IH]; intros l2 seen.
  - exists seen. split; [intros z; simpl; tauto|reflexivity].
  - simpl. destruct (existsb (Nat.eqb x) seen) eqn:E.
    + destruct (IH l2 seen) as (seen' & S & U). exists seen'. split; auto.
      apply existsb_eqb_in in E. intros z. rewrite S. split; [tauto|]. intros [[->|H]|H]; auto.
    + destruct (IH l2 (x :: seen)) as (seen' & S & U). exists seen'. split.
      * intros z. rewrite S. simpl. tauto.
      * rewrite U. reflexivity.
Qed.

(* declaration order: cut the declared (transition, event) sequence of the state anywhere; the events
   of the first part are listed first, in the order the first part alone would give, and what follows
   are exactly the events that occur in the second part only *)
Theorem allowed_events_in_declaration_order rm s l1 l2 :
  flat_map rt_events (outs rm s) = l1 ++ l2 ->
  exists rest, allowed_events rm s = uniq [] l1 ++ rest
               /\ forall e, In e rest <-> In e l2 /\ ~ In e l1.
Proof.
  intros H. unfold allowed_events. rewrite H.
  destruct (uniq_app l1 l2 []) as (seen' & S & U). exists (uniq seen' l2). split; auto.
  intros e. rewrite uniq_in, S. simpl. tauto.
Qed.

(* in particular an event first declared on an earlier transition precedes one first declared later *)
Corollary earlier_declared_event_listed_first rm s l1 l2 e1 e2 :
  flat_map rt_events (outs rm s) = l1 ++ l2 -> In e1 l1 -> In e2 l2 -> ~ In e2 l1 ->
  exists a b c, allowed_events rm s = a ++ e1 :: b ++ e2 :: c.
Proof.
  intros H H1 H2 N. destruct (allowed_events_in_declaration_order rm s l1 l2 H) as (rest & E & R).
  assert (I1 : In e1 (uniq [] l1)) by (apply uniq_in; split; auto).
  assert (I2 : In e2 rest) by (apply R; split; auto).
  apply in_split in I1. destruct I1 as (a & b1 & E1). apply in_split in I2. destruct I2 as (b2 & c & E2).
  exists a, (b1 ++ b2), c. rewrite E, E1, E2. repeat (rewrite <- app_assoc; simpl). reflexivity.
Qed.
