(* C18: the transition edges of the graph are exactly the external transitions, with multiplicity:
   grouping them by source state loses and duplicates nothing. *)
From Coq Require Import List Arith Bool Lia Permutation.
Import ListNotations.
From PySM Require Import Impl.Diagram Proofs.DiagramProofs.

Lemma flat_map_ext_in' {A B} (f g : A -> list B) l : (forall x, In x l -> f x = g x) -> flat_map f l = flat_map g l.
Proof.
  induction l as [|x l IH]; intros H; simpl; auto. rewrite (H x (or_introl eq_refl)), IH; auto.
  intros y Hy. apply H. now right.
Qed.

Lemma flat_map_insert {A} (f : nat -> list A) k t : forall idx, NoDup idx -> In k idx ->
  Permutation (flat_map (fun s => if Nat.eqb s k then t :: f s else f s) idx) (t :: flat_map f idx).
Proof.
  induction idx as [|a idx IH]; intros ND Hk; [contradiction|].
  inversion ND as [|? ? Ha ND']; subst. simpl.
  destruct (Nat.eqb a k) eqn:E.
  - apply Nat.eqb_eq in E. subst a. simpl. apply perm_skip. apply Permutation_app_head.
    rewrite (flat_map_ext_in' (fun s => if Nat.eqb s k then t :: f s else f s) f); [reflexivity|].
    intros s Hs. destruct (Nat.eqb s k) eqn:E; auto. apply Nat.eqb_eq in E. subst. contradiction.
  - destruct Hk as [->|Hk]; [rewrite Nat.eqb_refl in E; discriminate|].
    rewrite (IH ND' Hk). apply Permutation_sym, Permutation_middle.
Qed.

Lemma flat_map_nil {A B} (l : list A) : flat_map (fun _ => @nil B) l = [].
Proof. induction l; simpl; auto. Qed.

Lemma partition_by_key {A} (key : A -> nat) n : forall l, (forall t, In t l -> key t < n) ->
  Permutation (flat_map (fun s => filter (fun t => Nat.eqb (key t) s) l) (seq 0 n)) l.
Proof.
  induction l as [|t r IH]; intros H.
  - simpl. rewrite flat_map_nil. constructor.
  - simpl.
    rewrite (flat_map_ext (fun s => if Nat.eqb (key t) s then t :: filter (fun t0 => Nat.eqb (key t0) s) r
                                    else filter (fun t0 => Nat.eqb (key t0) s) r)
                          (fun s => if Nat.eqb s (key t) then t :: filter (fun t0 => Nat.eqb (key t0) s) r
                                    else filter (fun t0 => Nat.eqb (key t0) s) r)).
    + rewrite flat_map_insert.
      * apply perm_skip. apply IH. intros u Hu. apply H. now right.
      * apply seq_NoDup.
      * apply in_seq. pose proof (H t (or_introl eq_refl)). lia.
    + intros s. rewrite Nat.eqb_sym. reflexivity.
Qed.

Lemma filter_comm {A} (f g : A -> bool) l : filter f (filter g l) = filter g (filter f l).
Proof. induction l as [|x l IH]; simpl; auto. destruct (f x) eqn:F, (g x) eqn:G; simpl; rewrite ?F, ?G, IH; auto. Qed.

Lemma map_flat_map {A B C} (g : B -> C) (h : A -> list B) l : flat_map (fun s => map g (h s)) l = map g (flat_map h l).
Proof. induction l as [|x l IH]; simpl; auto. rewrite map_app, IH. reflexivity. Qed.

Definition external (t : dtrans) : bool := negb (dt_internal t).

(* one edge per external transition - no transition is drawn twice, none is dropped, whatever the
   number of transitions between the same two states *)
Theorem edges_exactly_external m : well_formed m ->
  Permutation (tl (graph_edges m)) (map trans_edge (filter external (dm_trans m))).
Proof.
  intros (_ & W). rewrite transition_edges. unfold outs.
  rewrite (flat_map_ext _ (fun s => map trans_edge (filter (fun t => Nat.eqb (dt_src t) s) (filter external (dm_trans m))))).
  - rewrite map_flat_map. apply Permutation_map. apply partition_by_key.
    intros t Ht. apply filter_In in Ht. destruct Ht as [Ht _]. destruct (W t Ht). assumption.
  - intros s. f_equal. apply filter_comm.
Qed.

Corollary edge_count m : well_formed m ->
  length (graph_edges m) = S (length (filter external (dm_trans m))).
Proof.
  intros W. pose proof (Permutation_length (edges_exactly_external m W)) as H.
  rewrite map_length in H. unfold graph_edges in *. simpl in *. rewrite H. reflexivity.
Qed.

(* in particular: as many edges with a given picture as transitions with that picture *)
Corollary edge_multiplicity m (eqd : forall x y : dedge, {x = y} + {x <> y}) e : well_formed m ->
  count_occ eqd (tl (graph_edges m)) e = count_occ eqd (map trans_edge (filter external (dm_trans m))) e.
Proof. intros W. apply Permutation_count_occ. apply edges_exactly_external. exact W. Qed.
