(* C03, rtc=False: a send - from outside or from inside a callback - processes its trigger at once
   and returns that trigger's own result; everything it runs is logged strictly deeper than the
   place it was issued from (depth first), so a chain of nested sends runs at growing depth. *)
From Coq Require Import List Arith Bool Lia.
Import ListNotations.
From PySM Require Import Impl.Engine Proofs.EngineFrame Proofs.EngineLog.

Definition depth_ge (k : nat) (e : entry) : Prop :=
  match e with ECall _ _ _ _ _ _ _ _ _ dep => k <= dep | ENested _ => True end.

(* [at_least k c c']: the depth is restored and, when the place is itself at depth >= k, everything
   logged in between is at depth >= k *)
Definition at_least (k : nat) (c c' : cfg) : Prop :=
  depth c' = depth c /\ (k <= depth c -> exists l, log c' = l ++ log c /\ Forall (depth_ge k) l).

Lemma at_least_refl k c : at_least k c c.
Proof. split; auto. intros _. exists []. auto. Qed.

Lemma at_least_trans k a b c : at_least k a b -> at_least k b c -> at_least k a c.
Proof.
  intros (D1 & H1) (D2 & H2). split; [congruence|]. intros K.
  destruct (H1 K) as (l1 & L1 & A1). destruct (H2 ltac:(rewrite D1; exact K)) as (l2 & L2 & A2).
  exists (l2 ++ l1). split; [rewrite L2, L1, app_assoc; reflexivity|apply Forall_app; auto].
Qed.

Section NonRtc.
  Variable beh : behaviour.
  Variable rm : rmachine.
  Variable k : nat.

  Ltac ghost := intros; split; auto; intros _; exists []; auto.

  Section OneLevel.
    Variable nested : tdata -> cfg -> res pyres.
    Hypothesis nested_ok : forall td c, Rres (at_least k) c (nested td c).

    Let okk (c : cfg) (e : entry) : Prop := k <= depth c -> depth_ge k e.

    Lemma try_candidates_at_least cands e s td c :
      Rres (at_least k) c (try_candidates beh nested rm cands e s td c).
    Proof.
      apply (ltry_candidates beh nested rm (at_least k) okk).
      - apply at_least_refl.
      - apply at_least_trans.
      - ghost.
      - ghost.
      - ghost.
      - intros c0 e0 H. split; auto. intros K. exists [e0]. split; auto.
      - intros c0 r _. exact I.
      - intros c0 kk act g cb ev src tgt st tag K. simpl in *. exact K.
      - exact nested_ok.
      - left; ghost.
      - ghost.
      - ghost.
    Qed.

    Lemma activate_at_least t td c : Rres (at_least k) c (activate beh nested rm t td c).
    Proof.
      apply (lactivate beh nested rm (at_least k) okk).
      - apply at_least_refl.
      - apply at_least_trans.
      - ghost.
      - ghost.
      - ghost.
      - intros c0 e0 H. split; auto. intros K. exists [e0]. split; auto.
      - intros c0 r _. exact I.
      - intros c0 kk act g cb ev src tgt st tag K. simpl in *. exact K.
      - exact nested_ok.
      - left; ghost.
      - ghost.
      - ghost.
    Qed.

    (* one trigger processed at a place of depth d: logged at depth >= k as soon as k <= d + 1 *)
    Definition below (c c' : cfg) : Prop :=
      depth c' = depth c /\ (k <= S (depth c) -> exists l, log c' = l ++ log c /\ Forall (depth_ge k) l).

    Lemma trigger_below td c : Rres below c (trigger beh nested rm td c).
    Proof.
      unfold trigger. set (c1 := set_depth c (S (depth c))).
      assert (D1 : depth c1 = S (depth c)) by reflexivity.
      assert (L1 : log c1 = log c) by reflexivity.
      destruct (td_ev td) as [e|].
      - simpl. destruct (field c) as [s|] eqn:F.
        + pose proof (try_candidates_at_least (outs rm s) e s td c1) as H.
          destruct (try_candidates beh nested rm (outs rm s) e s td c1) as [c2 v|c2 x|]; auto;
            destruct H as (D2 & H); split; simpl; auto; intros K;
            destruct (H ltac:(rewrite D1; exact K)) as (l & L & A); exists l; rewrite L, L1; auto.
        + split; simpl; auto. intros _. exists []. auto.
      - pose proof (activate_at_least (initial_atrans rm) td c1) as H.
        destruct (activate beh nested rm (initial_atrans rm) td c1) as [c2 v|c2 x|]; auto;
          destruct H as (D2 & H); split; simpl; auto; intros K;
          destruct (H ltac:(rewrite D1; exact K)) as (l & L & A); exists l; rewrite L, L1; auto.
    Qed.
  End OneLevel.

  Lemma below_at_least c c' : below c c' -> at_least k c c'.
  Proof. intros (D & H). split; auto. Qed.

  Lemma send_nonrtc_below : forall f td c, Rres below c (send_nonrtc beh rm f td c).
  Proof.
    induction f as [|f IH]; intros td c; simpl; auto.
    destruct (queue c ++ [td]) as [|td0 q] eqn:Q.
    - simpl. split; auto. intros _. exists []. auto.
    - assert (N : forall td' c', Rres (at_least k) c' (send_nonrtc beh rm f td' c')).
      { intros td' c'. specialize (IH td' c'). destruct (send_nonrtc beh rm f td' c'); simpl in *; auto using below_at_least. }
      pose proof (trigger_below (send_nonrtc beh rm f) N td0 (set_queue (enqueue td c) q)) as T.
      simpl in *.
      destruct (trigger beh (send_nonrtc beh rm f) rm td0 (set_queue (enqueue td c) q)) as [c2 r|c2 x|]; simpl in *; auto.
  Qed.
End NonRtc.

(* rtc=False, idle queue: the send IS the processing of its own trigger - at once, before the send
   returns - and its value is that trigger's own result *)
Theorem nonrtc_send_processes_its_trigger_at_once beh rm f td c :
  queue c = [] ->
  send_nonrtc beh rm (S f) td c =
    match trigger beh (send_nonrtc beh rm f) rm td (set_queue (enqueue td c) []) with
    | Ok c2 r => Ok c2 (match r with Some v => v | None => no_res end)
    | Exn c2 x => Exn c2 x
    | Fuel => Fuel
    end.
Proof. intros Q. simpl. rewrite Q. simpl. reflexivity. Qed.

(* depth first: whatever a send issued at depth d runs - its own callbacks, and those of the sends
   they issue, to any nesting - is logged at depth >= d + 1, and the depth is d again afterwards *)
Theorem nonrtc_runs_deeper beh rm f td c :
  Rres (fun c c' => depth c' = depth c
                    /\ exists l, log c' = l ++ log c /\ Forall (depth_ge (S (depth c))) l)
       c (send_nonrtc beh rm f td c).
Proof.
  pose proof (send_nonrtc_below beh rm (S (depth c)) f td c) as H.
  destruct (send_nonrtc beh rm f td c) as [c2 v|c2 x|]; simpl in *; auto;
    destruct H as (D & H); split; auto.
Qed.

(* ---------- rtc=False never leaves anything queued, and never touches the lock ---------- *)
Definition stays_idle (c c' : cfg) : Prop := (queue c = [] -> queue c' = []) /\ locked c' = locked c.

Lemma stays_idle_refl c : stays_idle c c.
Proof. split; auto. Qed.

Lemma stays_idle_trans a b c : stays_idle a b -> stays_idle b c -> stays_idle a c.
Proof. intros (Q1 & L1) (Q2 & L2). split; [auto|congruence]. Qed.

Lemma send_nonrtc_stays_idle beh rm : forall f td c, Rres stays_idle c (send_nonrtc beh rm f td c).
Proof.
  induction f as [|f IH]; intros td c; simpl; auto.
  destruct (queue c ++ [td]) as [|td0 q] eqn:Q.
  - simpl. split; auto.
  - assert (T : Rres stays_idle (set_queue (enqueue td c) q)
                  (trigger beh (send_nonrtc beh rm f) rm td0 (set_queue (enqueue td c) q))).
    { apply (trigger_R beh (send_nonrtc beh rm f) rm stays_idle);
        [apply stays_idle_refl | apply stays_idle_trans | intros; split; auto | intros; split; auto
        | intros; split; auto | intros; split; auto | intros; split; auto | intros; split; auto
        | apply IH | left; intros; split; auto | intros; split; auto]. }
    assert (E : queue c = [] -> q = []).
    { intros Z. rewrite Z in Q. simpl in Q. inversion Q. reflexivity. }
    destruct (trigger beh (send_nonrtc beh rm f) rm td0 (set_queue (enqueue td c) q)) as [c2 r|c2 x|];
      simpl in *; auto; destruct T as (TQ & TL); split; auto.
Qed.

(* on an idle machine every rtc=False send - returning or raising, whatever its callbacks send in
   turn - ends with an empty queue and the lock untouched: the next event is processed normally *)
Theorem nonrtc_send_ends_idle beh rm f td c :
  queue c = [] ->
  match send_nonrtc beh rm f td c with
  | Ok c' _ | Exn c' _ => queue c' = [] /\ locked c' = locked c
  | Fuel => True
  end.
Proof.
  intros Q. pose proof (send_nonrtc_stays_idle beh rm f td c) as H.
  destruct (send_nonrtc beh rm f td c); simpl in *; auto; destruct H as (HQ & HL); auto.
Qed.
