(* Every rendering of an abstract machine creates the same transitions in the same order. *)
From Coq Require Import List Arith Bool Lia.
Import ListNotations.
From PySM Require Import Impl.Decl.

Lemma atr_eta t : {| a_src := a_src t; a_tgt := a_tgt t; a_events := a_events t; a_kw := a_kw t |} = t.
Proof. destruct t; reflexivity. Qed.

Theorem to_style m : eval_body (render_to m) = m.
Proof. induction m as [|t r IH]; simpl; auto. rewrite atr_eta. f_equal. exact IH. Qed.

Theorem from_style m : eval_body (render_from m) = m.
Proof. induction m as [|t r IH]; simpl; auto. rewrite atr_eta. f_equal. exact IH. Qed.

Theorem itself_style m : eval_body (render_itself m) = m.
Proof.
  induction m as [|t r IH]; simpl; auto. unfold stmt_itself.
  destruct (Nat.eqb_spec (a_src t) (a_tgt t)) as [E|N]; simpl.
  - f_equal; [|exact IH]. destruct t; simpl in *; subst; reflexivity.
  - rewrite atr_eta. f_equal. exact IH.
Qed.

Theorem multi_to_style m : eval_body (render_multi_to m) = m.
Proof.
  induction m as [|t r IH]; simpl; auto.
  destruct (render_multi_to r) as [|[c ev kw] rest] eqn:E.
  - simpl in *. rewrite atr_eta. f_equal. exact IH.
  - destruct c as [s ts|x ss|s].
    + destruct (Nat.eqb_spec s (a_src t)) as [->|N]; simpl.
      * unfold leqb. destruct (list_eq_dec Nat.eq_dec ev (a_events t)) as [->|N2]; simpl.
        -- destruct (Nat.eqb_spec kw (a_kw t)) as [->|N3]; simpl.
           ++ rewrite atr_eta. f_equal. simpl in IH. exact IH.
           ++ rewrite atr_eta. f_equal. exact IH.
        -- rewrite atr_eta. f_equal. exact IH.
      * rewrite atr_eta. f_equal. exact IH.
    + simpl. rewrite atr_eta. f_equal. exact IH.
    + simpl. rewrite atr_eta. f_equal. exact IH.
Qed.

Theorem multi_from_style m : eval_body (render_multi_from m) = m.
Proof.
  induction m as [|t r IH]; simpl; auto.
  destruct (render_multi_from r) as [|[c ev kw] rest] eqn:E.
  - simpl in *. rewrite atr_eta. f_equal. exact IH.
  - destruct c as [s ts|x ss|s].
    + simpl. rewrite atr_eta. f_equal. exact IH.
    + destruct (Nat.eqb_spec x (a_tgt t)) as [->|N]; simpl.
      * unfold leqb. destruct (list_eq_dec Nat.eq_dec ev (a_events t)) as [->|N2]; simpl.
        -- destruct (Nat.eqb_spec kw (a_kw t)) as [->|N3]; simpl.
           ++ rewrite atr_eta. f_equal. simpl in IH. exact IH.
           ++ rewrite atr_eta. f_equal. exact IH.
        -- rewrite atr_eta. f_equal. exact IH.
      * rewrite atr_eta. f_equal. exact IH.
    + simpl. rewrite atr_eta. f_equal. exact IH.
Qed.

(* equal creation order gives every state the same ordered list of transitions *)
Corollary same_machine_per_state (b1 b2 : list stmt) :
  eval_body b1 = eval_body b2 -> forall s, per_state (eval_body b1) s = per_state (eval_body b2) s.
Proof. intros H s. rewrite H. reflexivity. Qed.

(* events attached by class attributes: transition j ends up bound to exactly its events *)
Lemma indices_with_in e : forall m j k, In k (indices_with e m j) <->
  exists t, nth_error m (k - j) = Some t /\ j <= k /\ In e (a_events t).
Proof.
  induction m as [|t r IH]; intros j k; simpl.
  - split; [contradiction|]. intros (t & H & _). destruct (k - j); discriminate.
  - destruct (existsb (Nat.eqb e) (a_events t)) eqn:X.
    + simpl. rewrite IH. split.
      * intros [<-|(u & H & L & I)].
        -- exists t. rewrite Nat.sub_diag. simpl. repeat split; auto.
           apply existsb_exists in X as (y & Hy & Ey). apply Nat.eqb_eq in Ey. subst. exact Hy.
        -- exists u. replace (k - j) with (S (k - S j)) by lia. simpl. repeat split; auto. lia.
      * intros (u & H & L & I). destruct (Nat.eq_dec j k) as [->|N]; [now left|right].
        exists u. replace (k - j) with (S (k - S j)) in H by lia. simpl in H. repeat split; auto. lia.
    + rewrite IH. split.
      * intros (u & H & L & I). exists u. replace (k - j) with (S (k - S j)) by lia. simpl. repeat split; auto. lia.
      * intros (u & H & L & I). destruct (Nat.eq_dec j k) as [->|N].
        -- rewrite Nat.sub_diag in H. simpl in H. inversion H; subst. exfalso.
           assert (existsb (Nat.eqb e) (a_events u) = true) by (apply existsb_exists; exists e; split; auto; apply Nat.eqb_refl).
           congruence.
        -- exists u. replace (k - j) with (S (k - S j)) in H by lia. simpl in H. repeat split; auto. lia.
Qed.

Theorem attribute_style all_events m j t e :
  nth_error m j = Some t -> (forall x, In x (a_events t) -> In x all_events) ->
  (In e (attach (render_attrs all_events m) j) <-> In e (a_events t)).
Proof.
  intros Hj Hall. unfold attach, render_attrs. rewrite in_map_iff. split.
  - intros ((e' & l) & <- & H). apply filter_In in H as (H1 & H2). simpl in *.
    apply in_map_iff in H1 as (e0 & E & _). inversion E; subst.
    apply existsb_exists in H2 as (k & Hk & Ek). apply Nat.eqb_eq in Ek. subst k.
    apply indices_with_in in Hk as (u & Hu & _ & I). rewrite Nat.sub_0_r, Hj in Hu. inversion Hu; subst. exact I.
  - intros I. exists (e, indices_with e m 0). split; auto. apply filter_In. split.
    + apply in_map_iff. exists e. split; auto.
    + simpl. apply existsb_exists. exists j. split; [|apply Nat.eqb_refl].
      apply indices_with_in. exists t. rewrite Nat.sub_0_r. repeat split; auto. lia.
Qed.

(* from_.any(): the metaclass appends one transition per non-final state after everything the class
   body created - the same machine as writing those transitions last, explicitly *)
Theorem any_style m nonfinal x e kw :
  expand_any m nonfinal x e kw
  = eval_body (render_to m ++ map (fun s => stmt_to {| a_src := s; a_tgt := x; a_events := [e]; a_kw := kw |}) nonfinal).
Proof.
  unfold expand_any, eval_body. rewrite flat_map_app. fold (eval_body (render_to m)). rewrite to_style. f_equal.
  induction nonfinal as [|s r IH]; simpl; auto. f_equal. exact IH.
Qed.

(* inheritance: a base class executing the body b1 and a subclass executing b2 (its calls made from the
   inherited states) create b1's transitions, then b2's - the machine of the one class whose body is
   b1 followed by b2; hence every state has the same ordered transition list either way, for any
   split and any mix of calling styles in the two bodies *)
Theorem base_plus_subclass_style b1 b2 : eval_body (b1 ++ b2) = eval_body b1 ++ eval_body b2.
Proof. unfold eval_body. apply flat_map_app. Qed.

Corollary split_style m1 m2 : eval_body (render_to m1) ++ eval_body (render_from m2) = m1 ++ m2.
Proof. rewrite to_style, from_style. reflexivity. Qed.

Corollary split_per_state b1 b2 s :
  per_state (eval_body (b1 ++ b2)) s = per_state (eval_body b1) s ++ per_state (eval_body b2) s.
Proof. rewrite base_plus_subclass_style. unfold per_state. apply filter_app. Qed.
