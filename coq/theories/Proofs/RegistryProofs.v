(* Proofs about callback resolution (Impl/Registry.v): providers are treated alike, attaching the
   same listeners again changes nothing. *)
From Coq Require Import List Arith Bool Lia.
Import ListNotations.
From PySM Require Import Impl.Engine Impl.Registry Proofs.EngineProofs.

Lemma cbname_eqb_refl n : cbname_eqb n n = true.
Proof. unfold cbname_eqb. destruct (cbname_code n) as [a b]. rewrite !Nat.eqb_refl. reflexivity. Qed.

Lemma cbref_eqb_refl c : cbref_eqb c c = true.
Proof. unfold cbref_eqb. rewrite Nat.eqb_refl, cbname_eqb_refl. reflexivity. Qed.

Lemma same_key_refl w : same_key w w = true.
Proof. unfold same_key. induction (w_cbs w) as [|c r IH]; simpl; auto. rewrite cbref_eqb_refl. exact IH. Qed.

Definition has (ex : list wrapper) (w : wrapper) : bool := existsb (same_key w) ex.

Lemma add_present ex w : has ex w = true -> executor_add ex w = ex.
Proof. unfold executor_add, has. intros ->. reflexivity. Qed.

Lemma add_keeps ex w w' : has ex w = true -> has (executor_add ex w') w = true.
Proof.
  unfold executor_add, has. intros H. destruct (existsb (same_key w') ex); auto.
  rewrite existsb_app, H. reflexivity.
Qed.

Lemma add_has ex w : has (executor_add ex w) w = true.
Proof.
  unfold executor_add, has. destruct (existsb (same_key w) ex) eqn:E; auto.
  rewrite existsb_app. simpl. rewrite same_key_refl. apply orb_true_iff. right. reflexivity.
Qed.

Lemma fold_add_keeps : forall ws ex w, has ex w = true -> has (fold_left executor_add ws ex) w = true.
Proof. induction ws as [|w' r IH]; intros ex w H; simpl; auto. apply IH, add_keeps, H. Qed.

Lemma fold_add_has : forall ws ex w, In w ws -> has (fold_left executor_add ws ex) w = true.
Proof.
  induction ws as [|w' r IH]; intros ex w H; simpl; [contradiction|].
  destruct H as [<-|H].
  - apply fold_add_keeps, add_has.
  - apply IH, H.
Qed.

Lemma fold_add_noop : forall ws ex, (forall w, In w ws -> has ex w = true) -> fold_left executor_add ws ex = ex.
Proof.
  induction ws as [|w r IH]; intros ex H; simpl; auto.
  rewrite add_present by (apply H; now left). apply IH. intros w' Hw'. apply H. now right.
Qed.

Section Round.
  Variable provs : list provider.
  Variable g : group.
  Variable round : list nat.

  Lemma round_keeps : forall specs ex w, has ex w = true -> has (resolve_round provs g specs ex round) w = true.
  Proof.
    unfold resolve_round. induction specs as [|sp r IH]; intros ex w H; simpl; auto.
    apply IH, fold_add_keeps, H.
  Qed.

  Lemma round_has : forall specs ex sp w,
    In sp specs -> In w (resolve_spec provs g round sp) -> has (resolve_round provs g specs ex round) w = true.
  Proof.
    unfold resolve_round. induction specs as [|sp' r IH]; intros ex sp w Hs Hw; simpl; [contradiction|].
    destruct Hs as [<-|Hs].
    - apply (round_keeps r). apply fold_add_has, Hw.
    - eapply IH; eauto.
  Qed.

  Lemma round_noop : forall specs ex,
    (forall sp w, In sp specs -> In w (resolve_spec provs g round sp) -> has ex w = true) ->
    resolve_round provs g specs ex round = ex.
  Proof.
    unfold resolve_round. induction specs as [|sp r IH]; intros ex H; simpl; auto.
    assert (E : fold_left executor_add (resolve_spec provs g round sp) ex = ex).
    { apply fold_add_noop. intros w Hw. apply (H sp w); [left; reflexivity|exact Hw]. }
    rewrite E. apply IH. intros sp' w Hs Hw. apply (H sp' w); [right; exact Hs|exact Hw].
  Qed.

  (* attaching the same listeners a second time (at any later point: [ex] is whatever the executor
     holds by then) adds nothing: no callback is duplicated *)
  Theorem attach_twice_is_once specs ex :
    resolve_round provs g specs (resolve_round provs g specs ex round) round
    = resolve_round provs g specs ex round.
  Proof. apply round_noop. intros sp w Hs Hw. eapply round_has; eauto. Qed.
End Round.

(* and more generally: once a round has been resolved, resolving it again after any number of other
   rounds still adds nothing *)
Theorem reattach_later_is_noop provs g specs round : forall others ex,
  resolve_round provs g specs
    (fold_left (resolve_round provs g specs) others (resolve_round provs g specs ex round)) round
  = fold_left (resolve_round provs g specs) others (resolve_round provs g specs ex round).
Proof.
  intros others ex. apply round_noop. intros sp w Hs Hw.
  assert (H0 : has (resolve_round provs g specs ex round) w = true) by (eapply round_has; eauto).
  revert H0. generalize (resolve_round provs g specs ex round) as e0.
  induction others as [|o r IH]; intros e0 H0; simpl; auto.
  apply IH. apply round_keeps. exact H0.
Qed.

(* parity of providers: an action / validator name gets exactly one wrapper per provider of the round
   that has the attribute - machine, model and listeners are not distinguished *)
Theorem one_wrapper_per_provider provs g round sp :
  g <> GCond ->
  resolve_spec provs g round sp =
    map (fun p => mkw sp [{| cb_prov := p; cb_name := sp_name sp |}])
        (filter (fun p => has_attr provs p (sp_name sp)) round).
Proof. intros H. unfold resolve_spec. destruct g; try reflexivity. contradiction. Qed.

(* a guard name provided by several objects of the round is one entry whose value is the
   left-to-right conjunction over all of them *)
Theorem guard_over_all_providers provs round sp :
  resolve_spec provs GCond round sp =
    match filter (fun p => has_attr provs p (sp_name sp)) round with
    | [] => []
    | ps => [mkw sp (map (fun p => {| cb_prov := p; cb_name := sp_name sp |}) ps)]
    end.
Proof. unfold resolve_spec. destruct (filter _ round); reflexivity. Qed.

Lemma chain_val_truthy beh : forall cbs,
  truthy (chain_val beh cbs) = forallb (fun cb => truthy (ret (beh cb 0))) cbs.
Proof.
  induction cbs as [|cb r IH]; simpl; auto.
  destruct r as [|cb2 r2]; [simpl; rewrite andb_true_r; reflexivity|].
  destruct (truthy (ret (beh cb 0))) eqn:T; simpl in *; auto.
Qed.
