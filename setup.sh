#!/bin/sh
# Build the whole Coq development (full .vo build, no -vos). Offline; ~1-2 min from clean.
set -e
cd "$(dirname "$0")/coq"
coq_makefile -f _CoqProject -o Makefile >/dev/null
timeout 3000 make -j16
